import io, logging, os, sys, re, traceback, time, collections, itertools, hashlib
import propka.run as run, propka.coupled_groups as CG
logging.disable(logging.CRITICAL)
def rec(m):
    out={}
    for n in m.conformation_names+['AVR']:
        for i,g in enumerate(m.conformations[n].groups):
            out[(n,i,g.label,g.type)]=(g.pka_value,g.energy_volume,g.energy_local,g.buried,{t:[(d.label,d.value) for d in g.determinants[t]] for t in g.determinants}, len(g.non_covalently_coupled_groups))
    return out
for f in ['1FTJ-Chain-A','1HPX','3SGB','4DFR']:
    CG.NCCG.do_prot_stat=True
    a=rec(run.single('/repo/tests/pdb/%s.pdb'%f, write_pka=False))
    CG.NCCG.do_prot_stat=False
    b=rec(run.single('/repo/tests/pdb/%s.pdb'%f, write_pka=False))
    CG.NCCG.do_prot_stat=True
    nd=0; mx=0; order=0
    for k in a:
        pa,pb=a[k],b[k]
        mx=max(mx,abs(pa[0]-pb[0]))
        for t in pa[4]:
            if sorted(pa[4][t])!=sorted(pb[4][t]): nd+=1
            elif pa[4][t]!=pb[4][t]: order+=1
    # sign checks
    viol=[]
    for k,v in a.items():
        pass
    print(f, 'max pka diff', mx, 'det multiset diffs', nd, 'order-only diffs', order, 'coupled groups', sum(1 for k in a if a[k][5]))

import io, logging, os, sys, re
import propka.run as run, propka.energy as E, propka.version
logging.disable(logging.CRITICAL)
def summ(m):
    return {(g.label,g.atom.icode,g.type):(g.pka_value,g.num_volume,g.energy_volume) for g in m.conformations['AVR'].groups}
p='/repo/tests/pdb/3SGB.pdb'
a=summ(run.single(p, write_pka=False))
src=open(E.__file__).read().replace("and atom.chain_id == group.atom.chain_id):","and atom.chain_id == group.atom.chain_id and atom.icode == group.atom.icode):")
ns={}
exec(compile(src, E.__file__, 'exec'), E.__dict__)
import propka.version as V
V.radial_volume_desolvation = E.radial_volume_desolvation
b=summ(run.single(p, write_pka=False))
for k in a:
    if abs(a[k][0]-b[k][0])>1e-9: print(k, a[k], b[k])

import io, logging, os, sys, re, traceback
import propka.run as run
logging.disable(logging.CRITICAL)
lines=[l for l in open('/repo/tests/pdb/3SGB.pdb') if l.startswith('ATOM')]
# choose a contiguous segment containing several ionizable residues: chain I 
seq=[]
for l in lines:
    k=(l[21],int(l[22:26]),l[26],l[17:20])
    if not seq or seq[-1]!=k: seq.append(k)
segI=[k for k in seq if k[0]=='I']
print([ (k[1],k[3]) for k in segI])

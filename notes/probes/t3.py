import io, logging, os, sys
import propka.run as run
logging.disable(logging.CRITICAL)
pdb = open('/repo/tests/pdb/3SGB-subset.pdb').read()
os.makedirs('out', exist_ok=True); os.chdir('out')
for opts in (['-w','0','14','2'], ['-w','0','14','0.5'], ['-g','0','14','0.05','-w','0','14','1'], ['-g','1','2','0.1','-w','1','2','0.1']):
    m = run.single('x.pdb', optargs=opts, stream=io.StringIO(pdb), write_pka=True)
    txt = open('x.pka').read()
    i = txt.index('Free energy of'); j = txt.index('The pH of optimum')
    print(opts); print(txt[i:j])
    k = txt.index('Protein charge of folded'); 
    print(txt[k:][:200], '...', txt[-250:])

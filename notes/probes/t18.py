import io, logging, os, sys, collections
import propka.run as run
logging.disable(logging.CRITICAL)
for f in ['1FTJ-Chain-A','1HPX','3SGB','4DFR']:
    m=run.single('/repo/tests/pdb/%s.pdb'%f, write_pka=False)
    c=m.conformations['1A']
    cnt=collections.Counter((g.type, g.atom.type, g.titratable) for g in c.groups)
    print(f, sorted(cnt.items()))
    print('   sybyl:', sorted(collections.Counter(a.sybyl_type for a in c.atoms if a.type=='hetatm' and a.element!='H').items()))

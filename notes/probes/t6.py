import io, logging, os, sys, re, traceback
import propka.run as run
logging.disable(logging.CRITICAL)
# find an ASP and a SER residue template in 3SGB
lines=[l for l in open('/repo/tests/pdb/3SGB.pdb') if l.startswith('ATOM')]
def res(chain,num,ic=' '):
    return [l for l in lines if l[21]==chain and int(l[22:26])==num and l[26]==ic]
# take tripeptide around an ASP: find first ASP
seq=[]
for l in lines:
    k=(l[21],int(l[22:26]),l[26],l[17:20])
    if not seq or seq[-1]!=k: seq.append(k)
idx=[i for i,k in enumerate(seq) if k[3]=='ASP'][0]
tri=seq[idx-1:idx+2]; print(tri)
pre=res(*tri[0][:3]); mid=res(*tri[1][:3]); post=res(*tri[2][:3])
def alt(ls, tag, resname=None, keep=None):
    out=[]
    for l in ls:
        if keep and l[12:16].strip() not in keep: continue
        l=l[:16]+tag+(resname or l[17:20])+l[20:]
        out.append(l)
    return out
bb=('N','CA','C','O','CB')
for name,first,second in (('ASP-in-A', alt(mid,'A'), alt(mid,'B','ALA',bb)), ('ASP-in-B', alt(mid,'A','ALA',bb), alt(mid,'B'))):
    pdb=''.join(pre+first+second+post)+'TER\nEND\n'
    m=run.single('x.pdb', stream=io.StringIO(pdb), write_pka=False)
    print(name)
    for n in m.conformation_names+['AVR']:
        print('  ',n,[(g.label,g.type,round(g.pka_value,4)) for g in m.conformations[n].groups if g.use_in_calculations()])

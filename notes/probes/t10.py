import io, logging, os, sys, re, traceback, time, collections, itertools
import propka.run as run
from multiprocessing import Pool
logging.disable(logging.CRITICAL)
lines=[l for l in open('/repo/tests/pdb/3SGB.pdb') if l.startswith('ATOM')]
res=collections.OrderedDict()
for l in lines: res.setdefault((l[21],l[22:27]),[]).append(l)
keys=list(res)
first={}
for i,k in enumerate(keys[1:-1],1):
    rn=res[k][0][17:20]
    if rn not in first and keys[i-1][0]==k[0]==keys[i+1][0]: first[rn]=i
def work(rn):
    i=first[rn]; pre,mid,post=res[keys[i-1]],res[keys[i]],res[keys[i+1]]
    exc=collections.Counter(); ex={}; n=0
    for mask in range(2**len(mid)):
        sub=[l for j,l in enumerate(mid) if mask>>j&1]
        pdb=''.join(pre+sub+post); n+=1
        try: run.single('x.pdb', stream=io.StringIO(pdb), write_pka=False)
        except Exception as e:
            tb=traceback.extract_tb(e.__traceback__)[-1]
            kx=(type(e).__name__, str(e)[:50], tb.filename.split('/')[-1], tb.lineno); exc[kx]+=1
            if kx not in ex or len(sub)>len(ex[kx]): ex[kx]=[l[12:16].strip() for l in sub]
    return rn,n,exc,ex
if __name__=='__main__':
    t=time.time()
    with Pool(16) as p:
        for rn,n,exc,ex in p.imap_unordered(work, sorted(first, key=lambda r:-len(res[keys[first[r]]]))):
            print(rn,n,dict(exc)); 
            for k in ex: print('     e.g. remaining atoms', ex[k])
    print(time.time()-t)

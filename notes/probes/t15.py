import math, itertools
from propka.vector_algebra import Vector, rotate_vector_around_an_axis as rot
def rod(theta, k, v):
    n=math.sqrt(sum(c*c for c in k)); k=[c/n for c in k]
    kxv=(k[1]*v[2]-k[2]*v[1], k[2]*v[0]-k[0]*v[2], k[0]*v[1]-k[1]*v[0]); kv=sum(a*b for a,b in zip(k,v))
    return [v[i]*math.cos(theta)+kxv[i]*math.sin(theta)+k[i]*kv*(1-math.cos(theta)) for i in range(3)]
bad=collections=None
import collections
bad=collections.Counter(); tot=0
vals=[-2,-1,-0.5,0,0.5,1,2]
for ax in itertools.product(vals,repeat=3):
    if ax==(0,0,0): continue
    for v in itertools.product([-1,0,1.5],repeat=3):
        if v==(0,0,0): continue
        for th in (0.3, math.pi/2, 2.0944, -1.0, math.pi):
            tot+=1
            r=rot(th, Vector(*ax), Vector(*v)); e=rod(th,ax,v)
            if max(abs(r.x-e[0]),abs(r.y-e[1]),abs(r.z-e[2]))>1e-9:
                bad[tuple(0 if c==0 else (1 if c>0 else -1) for c in ax)]+=1
print(tot, sum(bad.values())); print(bad)

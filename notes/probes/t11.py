import io, logging, os, sys, re, traceback, time, collections, itertools
import propka.run as run
logging.disable(logging.CRITICAL)
for f in ['1FTJ-Chain-A','1HPX','3SGB','4DFR']:
    t=time.time()
    m=run.single('/repo/tests/pdb/%s.pdb'%f, write_pka=False)
    dt=time.time()-t
    for n in m.conformation_names:
        c=m.conformations[n]
        sys_=[sorted(g.label for g in s) for s in c.get_coupled_systems(c.get_non_covalently_coupled_groups(), type(c.groups[0]).get_non_covalently_coupled_groups)]
        cov=[sorted(g.label for g in s) for s in c.get_coupled_systems(c.get_covalently_coupled_groups(), type(c.groups[0]).get_covalently_coupled_groups)]
        print(f, n, 'time %.2f'%dt, 'atoms', len(c.atoms), 'groups', len(c.groups), 'noncov systems', sys_, 'cov', cov)

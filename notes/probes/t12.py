import io, logging, os, sys, re, traceback, time, collections, itertools, hashlib
import propka.run as run
logging.disable(logging.CRITICAL)
junk=[bytearray(int(sys.argv[1])*37) for _ in range(int(sys.argv[1]))]
os.makedirs('out',exist_ok=True); os.chdir('out')
m=run.single('/repo/tests/pdb/1FTJ-Chain-A.pdb', optargs=['-d'], write_pka=True)
txt=open('1FTJ-Chain-A_alt_state.pka').read().split('\n',1)[1]
print(sys.argv[1], hashlib.md5(txt.encode()).hexdigest(), [(g.label, round(g.pka_value,3)) for g in m.conformations['AVR'].groups if g.label.startswith('GLU') and (' C ' in g.label or 'CD' in g.label or '193' in g.label)])

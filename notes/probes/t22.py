import io, logging, os, sys, collections
import propka.run as run, propka.iterative as IT
logging.disable(logging.CRITICAL)
def rec(m):
    return {(g.label):(g.pka_value,g.num_volume,g.energy_volume,sorted((t,d.label,d.value) for t in g.determinants for d in g.determinants[t])) for g in m.conformations['AVR'].groups}
iters=[]
orig=IT.add_determinants
import logging as L
class H(L.Handler):
    def emit(self,r):
        msg=r.getMessage()
        if 'pKa iterations' in msg: iters.append(msg.strip())
def shift(lines, dx):
    return [l[:30]+'%8.3f'%(float(l[30:38])+dx)+l[38:] if l.startswith(('ATOM','HETATM')) else l for l in lines]
for f,(c1,c2) in (('3SGB',('E','I')),('1HPX',('A','B')),('4DFR',('A','B'))):
    src=[l for l in open('/repo/tests/pdb/%s.pdb'%f) if l.startswith(('ATOM','HETATM')) and l[17:20]!='HOH' and l[16] in ' A']
    P1=[l for l in src if l[21]==c1]; P2=shift([l for l in src if l[21]==c2], 200.0)
    a=rec(run.single('x.pdb',stream=io.StringIO(''.join(P1)),write_pka=False))
    b=rec(run.single('x.pdb',stream=io.StringIO(''.join(P2)),write_pka=False))
    u=rec(run.single('x.pdb',stream=io.StringIO(''.join(P1)+'TER\n'+''.join(P2)),write_pka=False))
    bad=0; mx=0
    for part in (a,b):
        for k,v in part.items():
            if k not in u: bad+=1; print('missing',k); continue
            mx=max(mx,abs(u[k][0]-v[0]))
            if abs(u[k][0]-v[0])>1e-9 or u[k][1]!=v[1] or [x[:2] for x in u[k][3]]!=[x[:2] for x in v[3]]: bad+=1; print(f,k,v[0],u[k][0])
    print(f,len(a),len(b),len(u),'bad',bad,'max',mx)

import io, logging, os, sys, re, traceback, time
import propka.run as run
logging.disable(logging.CRITICAL)
lines=[l for l in open('/repo/tests/pdb/3SGB.pdb') if l.startswith('ATOM') and l[21]=='I']
def rec(m,conf='AVR'):
    out=[]
    for g in m.conformations[conf].groups:
        out.append((g.atom.res_name, g.type, round(g.pka_value,6), g.num_volume, round(g.energy_volume,6), 
              tuple(sorted((t,round(d.value,6)) for t in g.determinants for d in g.determinants[t]))))
    return out
pdb=''.join(lines)
t=time.time(); m=run.single('x.pdb', stream=io.StringIO(pdb), write_pka=False); print('time', time.time()-t, len(lines))
base=rec(m)
# relabel: make residue 27 (ASP) -> number 7 icode A  (twin of ASP 7), file order preserved
def relabel(lines, mapping):
    out=[]
    for l in lines:
        n=int(l[22:26])
        if n in mapping:
            nn,ic=mapping[n]; l=l[:22]+'%4d'%nn+ic+l[27:]
        out.append(l)
    return out
for mp in ({27:(7,'A')}, {8:(7,'A')}, {10:(9,'A')}, {19:(10,'A')}, {29:(13,'A')}):
    m2=run.single('x.pdb', stream=io.StringIO(''.join(relabel(lines,mp))), write_pka=False)
    r2=rec(m2)
    print(mp, 'ngroups', len(base), len(r2))
    for a,b in zip(base,r2):
        if a!=b: print('   ',a[:5],'\n    ',b[:5], '' if a[5]==b[5] else 'DETS DIFFER')

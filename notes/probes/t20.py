import io, logging, os, sys, collections, math, time, itertools
import propka.run as run
logging.disable(logging.CRITICAL)
lines=[l for l in open('/repo/tests/pdb/3SGB.pdb') if l.startswith('ATOM') and l[21]=='I']
res=collections.OrderedDict()
for l in lines: res.setdefault(int(l[22:26]),[]).append(l)
def xyz(l): return [float(l[30:38]),float(l[38:46]),float(l[46:54])]
def setxyz(l,p): return l[:30]+'%8.3f%8.3f%8.3f'%tuple(p)+l[54:]
def relab(ls, chain, num): return [l[:21]+chain+'%4d'%num+' '+l[27:] for l in ls]
def atom(ls,name): return [l for l in ls if l[12:16].strip()==name][0]
def sub(a,b): return [x-y for x,y in zip(a,b)]
def add(a,b): return [x+y for x,y in zip(a,b)]
def mul(a,s): return [x*s for x in a]
def norm(a): return math.sqrt(sum(x*x for x in a))
def cen(ls): 
    n=len(ls); return [sum(xyz(l)[i] for l in ls)/n for i in range(3)]
def rotmat(a,b):
    # rotation taking unit a to unit b (Rodrigues)
    a=mul(a,1/norm(a)); b=mul(b,1/norm(b))
    v=[a[1]*b[2]-a[2]*b[1],a[2]*b[0]-a[0]*b[2],a[0]*b[1]-a[1]*b[0]]; c=sum(x*y for x,y in zip(a,b)); s=norm(v)
    if s<1e-9: return None if c<0 else [[1,0,0],[0,1,0],[0,0,1]]
    k=mul(v,1/s)
    K=[[0,-k[2],k[1]],[k[2],0,-k[0]],[-k[1],k[0],0]]
    R=[[ (1 if i==j else 0)+s*K[i][j]+(1-c)*sum(K[i][m]*K[m][j] for m in range(3)) for j in range(3)] for i in range(3)]
    return R
def dock(A, aname, B, bname, d):
    pa=xyz(atom(A,aname)); u=sub(pa,cen(A)); u=mul(u,1/norm(u))
    pb=xyz(atom(B,bname)); w=sub(cen(B),pb)
    R=rotmat(w,u)
    out=[]
    target=add(pa,mul(u,d))
    for l in B:
        q=sub(xyz(l),pb); q=[sum(R[i][j]*q[j] for j in range(3)) for i in range(3)]
        out.append(setxyz(l, [round(v,3) for v in add(target,q)]))
    return out
def bath(center, atoms, rmin, rmax, spacing=3.0, clear=4.0):
    out=[]; n=int(rmax/spacing)+1; k=0
    for i,j,m in itertools.product(range(-n,n+1),repeat=3):
        p=[center[0]+i*spacing,center[1]+j*spacing,center[2]+m*spacing]
        r=norm(sub(p,center))
        if r<rmin or r>rmax: continue
        if min(norm(sub(p,a)) for a in atoms)<clear: continue
        k+=1
        out.append('ATOM  %5d  CB  ALA Z%4d    %8.3f%8.3f%8.3f  1.00  0.00           C\n'%(k,k,*p))
    return out
A=relab(res[27],'A',1)  # ASP
B=relab(res[29],'B',1)  # LYS
for d in (2.8, 4.0, 8.0):
  for (rmin,rmax) in ((0,0),(7,12),(5,14.5)):
    Bd=dock(A,'OD1',B,'NZ',d)
    allat=[xyz(l) for l in A+Bd]
    c=[sum(p[i] for p in allat)/len(allat) for i in range(3)]
    bt=bath(c, allat, rmin, rmax) if rmax else []
    pdb=''.join(A)+'TER\n'+''.join(Bd)+'TER\n'+''.join(bt)
    t=time.time(); m=run.single('x.pdb', stream=io.StringIO(pdb), write_pka=False); dt=time.time()-t
    print(d,(rmin,rmax),len(bt),'%.3fs'%dt,[(g.label,round(g.pka_value,2),int(g.num_volume),round(g.buried,2),{t:[(x.label,round(x.value,2)) for x in g.determinants[t]] for t in g.determinants if g.determinants[t]}) for g in m.conformations['AVR'].groups if g.type in('COO','LYS')])

import io, logging, os, sys, collections, types, hashlib, json, dataclasses
import propka, propka.run as run
import propka.group, propka.coupled_groups, propka.protonate, propka.atom, propka.lib
logging.disable(logging.CRITICAL)
def canon(o, depth=0, seen=None):
    seen=seen if seen is not None else set()
    if isinstance(o,(int,float,str,bool,type(None),bytes)): return repr(o)
    if id(o) in seen or depth>8: return '<cycle/deep>'
    seen=seen|{id(o)}
    if isinstance(o,dict): return '{'+','.join(sorted(canon(k,depth+1,seen)+':'+canon(v,depth+1,seen) for k,v in o.items()))+'}'
    if isinstance(o,(list,tuple)): return '['+','.join(canon(x,depth+1,seen) for x in o)+']'
    if isinstance(o,(set,frozenset)): return 'S['+','.join(sorted(canon(x,depth+1,seen) for x in o))+']'
    if isinstance(o,(types.ModuleType,types.FunctionType,types.BuiltinFunctionType,type,types.MethodType,logging.Logger)): return '<%s>'%type(o).__name__
    if hasattr(o,'__dict__'): return type(o).__name__+canon({k:v for k,v in vars(o).items()},depth+1,seen)
    return '<%s>'%type(o).__name__
def snapshot():
    parts=[]
    for name,mod in sorted(sys.modules.items()):
        if not (name=='propka' or name.startswith('propka.')) or mod is None: continue
        for k,v in sorted(vars(mod).items()):
            if k.startswith('__'): continue
            if isinstance(v,type) and v.__module__==name:
                cls={a:b for a,b in vars(v).items() if not a.startswith('__') and not callable(b) and not isinstance(b,(staticmethod,classmethod,property))}
                parts.append(name+'.'+k+'='+canon(cls))
            elif not isinstance(v,(types.ModuleType,types.FunctionType,type)):
                parts.append(name+'.'+k+'='+canon(v))
    parts.append('loglevels='+canon({n:l.level for n,l in logging.root.manager.loggerDict.items() if isinstance(l,logging.Logger) and n.startswith('propka')}))
    return parts
def h(parts): return hashlib.md5('\n'.join(parts).encode()).hexdigest()[:8]
s0=snapshot(); print('initial',h(s0),len(s0))
tri=''.join(l for l in open('/repo/tests/pdb/conf-alt-AB.pdb'))
unk=tri.replace('ATOM      1  N   GLY','HETATM    1  XX  UNK') if False else tri+'HETATM  900 XE    XE A 900      30.000  30.000  30.000  1.00  0.00          XE\n'
ops={'tri':(tri,[]),'tri-d':(tri,['-d']),'unk':(unk,[]),'tri-q':(tri,['-q']),'hpx':(open('/repo/tests/pdb/1HPX-warn.pdb').read(),[])}
prev=s0
for name in ['tri','tri-d','unk','tri','tri-q','hpx','unk']:
    pdb,opt=ops[name]
    run.single('x.pdb',optargs=opt,stream=io.StringIO(pdb),write_pka=False)
    s=snapshot(); print(name,h(s),[ (a[:60]) for a,b in zip(s,prev) if a!=b]); prev=s

import io, logging, os, sys, collections
import propka.run as run, propka.hybrid36 as H
from propka.parameters import Parameters
from propka.input import read_parameter_file
logging.disable(logging.CRITICAL)
lines=[l for l in open('/repo/tests/pdb/3SGB.pdb') if l.startswith('ATOM') and l[21]=='I']
res=collections.OrderedDict()
for l in lines: res.setdefault(int(l[22:26]),[]).append(l)
def relab(ls, chain, num, ic=' '):
    return [l[:21]+chain+'%4d'%num+ic+l[27:] for l in ls]
def groups(pdb, conf='AVR'):
    m=run.single('x.pdb', stream=io.StringIO(pdb), write_pka=False)
    return [(g.label,g.atom.icode,g.type) for g in m.conformations[conf].groups], m
# (a1) twins at chain start: residues 9(SER),10(GLU) relabelled 1, 1A
pdb=''.join(relab(res[9],'A',1)+relab(res[10],'A',1,'A')+relab(res[11],'A',2))
print('a1 twin start:', groups(pdb)[0])
# (a2) chain A single residue w/ OXT number 5 ; chain B starts with number 5, with TER
oxt=res[56]  # CYS 56 C-terminal with OXT?
print([l[12:16] for l in oxt])
pdb=''.join(relab(res[55],'A',4)+relab(oxt,'A',5))+'TER\n'+''.join(relab(res[9],'B',5)+relab(res[10],'B',6)+relab(res[11],'B',7))
print('a2 same number after OXT+TER:', groups(pdb)[0])
# (b)
p=read_parameter_file('propka.cfg', Parameters())
print('b Cl:', p.interaction_matrix.get_value('Cl','COO'), p.interaction_matrix.get_value('CL','COO'))
# (c)
for s in ['1_0','+12',' 1_2 ','-A000','1 2','A_00','١٢']:
    try: print('c', repr(s), H.decode(s))
    except Exception as e: print('c', repr(s), type(e).__name__)
# (f) N-term ASP summary
pdb=''.join(l for k in (7,8,9) for l in res[k])
g,m=groups(pdb)
from propka.output import get_summary_section, get_determinant_section
print('f', g); print(get_summary_section(m,'AVR',m.version.parameters))
# (d) MODEL 2 with extra chain
pdbA=''.join(relab(res[9],'A',1)+relab(res[10],'A',2)+relab(res[11],'A',3))
pdbB=''.join(relab(res[19],'B',1)+relab(res[20],'B',2)+relab(res[21],'B',3))
pdb='MODEL        1\n'+pdbA+'ENDMDL\nMODEL        2\n'+pdbA+'TER\n'+pdbB+'ENDMDL\n'
g,m=groups(pdb)
print('d', g, m.conformations['AVR'].chains)
print(get_determinant_section(m,'AVR',m.version.parameters)[-700:])
print(get_summary_section(m,'AVR',m.version.parameters))

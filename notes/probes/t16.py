import io, logging, os, sys, re, traceback, time, collections, itertools, hashlib
import propka.run as run, propka.protonate as P
logging.disable(logging.CRITICAL)
lines=[l for l in open('/repo/tests/pdb/3SGB.pdb') if l.startswith('ATOM') and l[21]=='I']
def rots():
    out=[]
    for perm in itertools.permutations(range(3)):
        for signs in itertools.product([1,-1],repeat=3):
            # determinant
            m=[[0]*3 for _ in range(3)]
            for i in range(3): m[i][perm[i]]=signs[i]
            det=(m[0][0]*(m[1][1]*m[2][2]-m[1][2]*m[2][1])-m[0][1]*(m[1][0]*m[2][2]-m[1][2]*m[2][0])+m[0][2]*(m[1][0]*m[2][1]-m[1][1]*m[2][0]))
            if det==1: out.append((perm,signs))
    return out
def xform(lines, perm, signs, t):
    out=[]
    for l in lines:
        c=[int(round(float(l[30+8*i:38+8*i])*1000)) for i in range(3)]
        n=[signs[i]*c[perm[i]]+t[i] for i in range(3)]
        out.append(l[:30]+''.join('%8.3f'%(v/1000) for v in n)+l[54:])
    return out
def rec(m):
    return [(g.label,g.pka_value,g.num_volume,g.energy_volume,sorted((t,d.label,d.value) for t in g.determinants for d in g.determinants[t])) for g in m.conformations['1A'].groups if g.titratable]
def cmp(a,b):
    mx=0; cnt=0; struct=0
    for x,y in zip(a,b):
        mx=max(mx,abs(x[1]-y[1])); 
        if x[2]!=y[2]: cnt+=1
        if [d[:2] for d in x[4]]!=[d[:2] for d in y[4]]: struct+=1
    return mx,cnt,struct
R=rots(); print(len(R))
for mode in ('rounded','unrounded'):
    if mode=='unrounded': P.round=lambda x,n: x
    base=rec(run.single('x.pdb', stream=io.StringIO(''.join(lines)), write_pka=False))
    worst=(0,0,0)
    for (perm,signs) in R:
        for t in ((0,0,0),(12345,-54321,777),(-900000,0,0)):
            r=rec(run.single('x.pdb', stream=io.StringIO(''.join(xform(lines,perm,signs,t))), write_pka=False))
            c=cmp(base,r); worst=tuple(max(a,b) for a,b in zip(worst,c))
    print(mode, 'max|dpKa|, nvol changes, det-structure changes', worst)

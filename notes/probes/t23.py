import io, logging, os, sys, collections
import propka.run as run
logging.disable(logging.CRITICAL)
def rec(m):
    return {(g.label,g.type):(g.pka_value,g.num_volume,g.energy_volume,sorted((t,d.label,round(d.value,9)) for t in g.determinants for d in g.determinants[t])) for g in m.conformations['AVR'].groups}
for opts in ([],['--protonate-all']):
    lines=[l for l in open('/repo/tests/pdb/3SGB.pdb') if l.startswith('ATOM') and l[21]=='I']
    m=run.single('x.pdb',optargs=opts,stream=io.StringIO(''.join(lines)),write_pka=False)
    base=rec(m)
    c=m.conformations['1A']
    out=[]; nH=0
    for a in c.atoms:
        nm=a.name if len(a.name)==4 else ' %-3s'%a.name
        out.append('ATOM  %5d %4s %3s %s%4d%s   %8.3f%8.3f%8.3f  1.00  0.00\n'%(a.numb%100000,nm,a.res_name,a.chain_id,a.res_num,a.icode or ' ',a.x,a.y,a.z))
        nH+= a.element=='H'
    m2=run.single('x.pdb',optargs=['-k'],stream=io.StringIO(''.join(out)),write_pka=False)
    r2=rec(m2)
    d=[k for k in base if k not in r2 or abs(base[k][0]-r2[k][0])>1e-9 or base[k][3]!=r2[k][3]]
    print(opts,'H written',nH,'groups',len(base),len(r2),'diffs',len(d)); 
    for k in d[:6]: print('  ',k,base[k][0],r2.get(k,[None])[0])
    # protonate-all vs default
m0=rec(run.single('x.pdb',stream=io.StringIO(''.join(lines)),write_pka=False)); m1=rec(run.single('x.pdb',optargs=['--protonate-all'],stream=io.StringIO(''.join(lines)),write_pka=False))
print('protonate-all vs default diffs', [k for k in m0 if abs(m0[k][0]-m1[k][0])>1e-9 or m0[k][3]!=m1[k][3]])

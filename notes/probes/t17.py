import io, logging, os, sys, re, traceback, time, collections, itertools, hashlib
import propka.run as run
logging.disable(logging.CRITICAL)
def rec(m):
    return [(g.label,g.type,round(g.pka_value,9),g.num_volume,round(g.energy_volume,9),sorted((t,d.label,round(d.value,9)) for t in g.determinants for d in g.determinants[t])) for g in m.conformations['AVR'].groups]
for f,chs in (('3SGB',['E','I']),('1HPX',['A','B'])):
    src=open('/repo/tests/pdb/%s.pdb'%f).readlines()
    for c in chs:
        a=rec(run.single('x.pdb', optargs=['-c',c], stream=io.StringIO(''.join(src)), write_pka=False))
        dele=[l for l in src if not (l.startswith(('ATOM','HETATM')) and l[21]!=c)]
        b=rec(run.single('x.pdb', stream=io.StringIO(''.join(dele)), write_pka=False))
        print(f,c,len(a),len(b),a==b)
        if a!=b:
            for x,y in zip(a,b):
                if x!=y: print('  ',x[:5],y[:5]); break
# blank chain
src=[l[:21]+' '+l[22:] if l.startswith(('ATOM','HETATM')) and l[21]=='I' else l for l in open('/repo/tests/pdb/3SGB.pdb')]
a=rec(run.single('x.pdb', optargs=['-c',' '], stream=io.StringIO(''.join(src)), write_pka=False))
dele=[l for l in src if not (l.startswith(('ATOM','HETATM')) and l[21]!=' ')]
b=rec(run.single('x.pdb', stream=io.StringIO(''.join(dele)), write_pka=False))
print('blank',len(a),len(b),a==b)
# titrate_only all residues == none
src=open('/repo/tests/pdb/3SGB.pdb').readlines()
allres=sorted({(l[21],int(l[22:26]),l[26]) for l in src if l.startswith(('ATOM','HETATM'))})
lst=','.join('%s:%d%s'%(c,n,ic.strip()) for c,n,ic in allres)
a=rec(run.single('x.pdb', optargs=['-i',lst], stream=io.StringIO(''.join(src)), write_pka=False))
b=rec(run.single('x.pdb', stream=io.StringIO(''.join(src)), write_pka=False))
print('titrate all', len(a),len(b),a==b)
for x,y in zip(a,b):
    if x!=y: print('  ',x[:5],y[:5])

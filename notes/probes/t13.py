import io, logging, os, sys, re, traceback, time, collections, itertools, hashlib
import propka.run as run, propka.group as G
logging.disable(logging.CRITICAL)
os.makedirs('out',exist_ok=True); os.chdir('out')
targets=['GLU 193 A','GLU   C A','GLU  CD A']
res=collections.Counter()
for perm in itertools.permutations(range(3)):
    hv=dict(zip(targets,perm))
    G.Group.__hash__=lambda self: hv.get(self.label, 8+ (id(self)>>4)%1000003*8)
    m=run.single('/repo/tests/pdb/1FTJ-Chain-A.pdb', optargs=['-d'], write_pka=False)
    out=tuple((g.label, round(g.pka_value,3)) for g in m.conformations['AVR'].groups if g.label in targets)
    print(perm,out); res[out]+=1
print(len(res),'distinct outcomes')

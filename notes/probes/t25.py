import os, time, pickle, io, logging
import propka.run as run
logging.disable(logging.CRITICAL)
pdb=open('/repo/tests/pdb/conf-alt-AB.pdb').read()
def iso(f):
    r,w=os.pipe(); pid=os.fork()
    if pid==0:
        os.close(r)
        try: out=pickle.dumps(f())
        except BaseException as e: out=pickle.dumps(('EXC',repr(e)))
        os.write(w,out); os._exit(0)
    os.close(w); data=b''
    while True:
        b=os.read(r,65536)
        if not b: break
        data+=b
    os.close(r); os.waitpid(pid,0); return pickle.loads(data)
def case():
    m=run.single('x.pdb',stream=io.StringIO(pdb),write_pka=False)
    return [(g.label,g.pka_value) for g in m.conformations['AVR'].groups]
t=time.time()
for i in range(200): iso(case)
print('forked per run', (time.time()-t)/200)
t=time.time()
for i in range(200): case()
print('in-process', (time.time()-t)/200)

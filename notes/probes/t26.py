import io, logging
import propka.run as run, propka
logging.disable(logging.CRITICAL)
print(propka.__file__)
src=[l for l in open('/repo/tests/pdb/1HPX-warn.pdb') if l.startswith(('ATOM','HETATM'))]
def shift(lines, dx, chain):
    return [l[:21]+chain+l[22:30]+'%8.3f'%(float(l[30:38])+dx)+l[38:] for l in lines]
pdb=''.join(src)+'TER\n'+''.join(shift(src,30.0,'B'))+'TER\nEND\n'
m=run.single('x.pdb', stream=io.StringIO(pdb), write_pka=False)
for n in m.conformation_names+['AVR']:
    print(n,[(g.label,g.type,g.atom.residue_label) for g in m.conformations[n].groups if g.use_in_calculations()])

import time, io, logging, sys
import propka.run as run
logging.disable(logging.CRITICAL)
pdb = open('/repo/tests/pdb/conf-alt-AB-mutant.pdb').read()
print(pdb)
t=time.time()
for i in range(20):
    m = run.single('x.pdb', stream=io.StringIO(pdb), write_pka=False)
print('per run', (time.time()-t)/20)
for n in m.conformation_names + ['AVR']:
    c = m.conformations[n]
    print(n, [(g.label, g.type, round(g.pka_value,3), g.titratable) for g in c.groups if g.use_in_calculations()])

import io, logging, os, sys, collections, math
import propka.run as run
logging.disable(logging.CRITICAL)
def pol(r,deg,z=0.0): return (r*math.cos(math.radians(deg)), r*math.sin(math.radians(deg)), z)
TET=[(1,1,1),(1,-1,-1),(-1,1,-1),(-1,-1,1)]
def tet(i,r): 
    v=TET[i]; n=math.sqrt(3); return tuple(r*c/n for c in v)
def addv(a,b): return tuple(x+y for x,y in zip(a,b))
mol={}
# methylguanidinium: CZ at origin, NE,NH1,NH2 at 1.33; CD bonded to NE at 1.46 in plane
NE=pol(1.33,90); mol['MGU']=[('CZ','C',(0,0,0)),('NE','N',NE),('NH1','N',pol(1.33,210)),('NH2','N',pol(1.33,330)),('CD','C',addv(NE,pol(1.46,150)))]
# acetamidinium (C2N): C1 central, N1,N2, C2 methyl
mol['AMI']=[('C1','C',(0,0,0)),('N1','N',pol(1.32,210)),('N2','N',pol(1.32,330)),('C2','C',pol(1.50,90))]
# ammonium
mol['NH4']=[('N1','N',(0,0,0))]
# methylamine
mol['MAM']=[('N1','N',(0,0,0)),('C1','C',tet(0,1.47))]
mol['DMA']=[('N1','N',(0,0,0)),('C1','C',tet(0,1.47)),('C2','C',tet(1,1.47))]
mol['TMA']=[('N1','N',(0,0,0)),('C1','C',tet(0,1.47)),('C2','C',tet(1,1.47)),('C3','C',tet(2,1.47))]
# pyridine: hexagon r=1.39
mol['PYR']=[('N1','N',pol(1.39,0))]+[('C%d'%i,'C',pol(1.39,60*i)) for i in range(1,6)]
# acetonitrile
mol['ACN']=[('C1','C',(0,0,0)),('N1','N',(1.16,0,0)),('C2','C',(-1.46,0,0))]
# methanethiol
mol['MSH']=[('S1','S',(0,0,0)),('C1','C',tet(0,1.82))]
# methyl phosphate: P, O1,O2,O3 terminal, O4 ester - C
O4=tet(3,1.60); mol['MPO']=[('P1','P',(0,0,0)),('O1','O',tet(0,1.50)),('O2','O',tet(1,1.50)),('O3','O',tet(2,1.50)),('O4','O',O4),('C1','C',addv(O4,tet(0,1.43)))]
# fluoromethane / chloromethane (add second carbon to make ethyl)
mol['CFM']=[('C1','C',(0,0,0)),('F1','F',tet(0,1.38)),('C2','C',tet(1,1.53))]
mol['CCL']=[('C1','C',(0,0,0)),('CL1','Cl',tet(0,1.77)),('C2','C',tet(1,1.53))]
# acetate
mol['ACT']=[('C1','C',(0,0,0)),('O1','O',pol(1.25,210)),('O2','O',pol(1.25,330)),('C2','C',pol(1.52,90))]
# methanol, dimethylether, acetone
mol['MOH']=[('O1','O',(0,0,0)),('C1','C',tet(0,1.43))]
mol['DME']=[('O1','O',(0,0,0)),('C1','C',tet(0,1.43)),('C2','C',tet(1,1.43))]
mol['ACO']=[('C1','C',(0,0,0)),('O1','O',pol(1.22,270)),('C2','C',pol(1.51,30)),('C3','C',pol(1.51,150))]
# N-methylacetamide: C1(=O1)(C2)-N1-C3
N1=pol(1.33,330); mol['NMA']=[('C1','C',(0,0,0)),('O1','O',pol(1.23,210)),('C2','C',pol(1.52,90)),('N1','N',N1),('C3','C',addv(N1,pol(1.45,30)))]
# aniline-like NP1: benzene ring + N on C1
ring=[('C%d'%(i+1),'C',pol(1.39,60*i)) for i in range(6)]
mol['ANL']=ring+[('N7','N',pol(1.39+1.40,0))]
def pdb(name,atoms,off=(10.0,10.0,10.0)):
    out=[]
    for i,(n,e,p) in enumerate(atoms,1):
        nm=('%-4s'%n) if len(e)==2 else (' %-3s'%n)
        out.append('HETATM%5d %4s %3s L%4d    %8.3f%8.3f%8.3f  1.00  0.00          %2s\n'%(i,nm,name,1,p[0]+off[0],p[1]+off[1],p[2]+off[2],e.upper()))
    return ''.join(out)
for name,atoms in mol.items():
    try:
        m=run.single('x.pdb',stream=io.StringIO(pdb(name,atoms)),write_pka=False)
        c=m.conformations['1A']
        print(name,[(a.name,a.sybyl_type) for a in c.atoms if a.element!='H'],'->',[(g.label.strip(),g.type,g.model_pka if g.titratable else None,g.charge, len([x for x in g.interaction_atoms_for_acids if x.element=='H'])) for g in c.groups])
    except Exception as e:
        import traceback; print(name,'EXC',type(e).__name__,e); traceback.print_exc(limit=4)

import io, logging, os, sys, re, traceback
import propka.run as run
logging.disable(logging.CRITICAL)
src=[l for l in open('/repo/tests/pdb/1HPX-warn.pdb') if l.startswith(('ATOM','HETATM'))]
print(''.join(src))
def shift(lines, dx, chain):
    out=[]
    for l in lines:
        x=float(l[30:38])+dx
        out.append(l[:21]+chain+l[22:30]+'%8.3f'%x+l[38:])
    return out
for dx in (30., 900., 1100., 5000.):
    pdb=''.join(src)+'TER\n'+''.join(shift(src,dx,'B'))+'TER\nEND\n'
    try:
        m=run.single('x.pdb', stream=io.StringIO(pdb), write_pka=False)
        print(dx, [(g.label, round(g.pka_value,4)) for g in m.conformations['AVR'].groups])
    except Exception as e:
        print(dx, 'EXC', type(e).__name__, e); traceback.print_exc(limit=3)

import io, logging, os, sys, re, traceback, time, collections
import propka.run as run
logging.disable(logging.CRITICAL)
lines=[l for l in open('/repo/tests/pdb/3SGB.pdb') if l.startswith('ATOM') and l[21]=='I']
exc=collections.Counter(); ex={}
t=time.time()
for i in range(len(lines)):
    pdb=''.join(lines[:i]+lines[i+1:])
    try: run.single('x.pdb', stream=io.StringIO(pdb), write_pka=False)
    except Exception as e:
        tb=traceback.extract_tb(e.__traceback__)[-1]
        k=(type(e).__name__, str(e)[:60], tb.filename.split('/')[-1], tb.lineno); exc[k]+=1; ex.setdefault(k, lines[i][12:27])
print('single-atom deletions', len(lines), time.time()-t)
for k,v in exc.items(): print(v,k,ex[k])
# residue deletions / sidechain deletions
import itertools
res=collections.OrderedDict()
for l in lines: res.setdefault(l[22:27],[]).append(l)
keys=list(res)
exc=collections.Counter(); ex={}
n=0
for keep in ('N','CA','C','O'), ('N','CA','C'), ('CA',), ('N','CA','C','O','CB'):
  for k in keys:
    pdb=''.join(l for kk in keys for l in res[kk] if kk!=k or l[12:16].strip() in keep)
    n+=1
    try: run.single('x.pdb', stream=io.StringIO(pdb), write_pka=False)
    except Exception as e:
        tb=traceback.extract_tb(e.__traceback__)[-1]
        kx=(type(e).__name__, str(e)[:60], tb.filename.split('/')[-1], tb.lineno); exc[kx]+=1; ex.setdefault(kx, (k,keep))
print('truncations', n)
for k,v in exc.items(): print(v,k,ex[k])

#!/venv/bin/python
"""Refresh the commit hashes of the 'fixed' entries in known_findings.json from /repo's history (matched by subject keyword)."""
import json, subprocess
KEY = {'KF-C19-1': 'hybrid36.decode rejects', 'KF-C20-1': 'rotate_vector_around_an_axis', 'KF-C01-1': 'TER record',
       'KF-C01-2': 'identify residues by chain', 'KF-C08-1': 'average each group', 'KF-C10-1': 'make_grid',
       'KF-C10-2': 'window prints', 'KF-C05-1': 'closest-pair search', 'KF-C02-1': 'recompute total pKa after sharing', 'KF-C03-1': 'iterate coupled systems in list order', 'KF-C01-5': 'forget the previous C-terminal residue', 'KF-C04-2': 'COO-ARG hydrogen bond no longer depends',
       'KF-C08-2': 'keep residues that differ only in insertion code apart',
       'KF-C10-3': 'window keeps its end points',
       'KF-C08-3': 'only through completion are listed'}
log = subprocess.run(['git', '-C', '/repo', 'log', '--format=%h %s'], capture_output=True, text=True).stdout.splitlines()
d = json.load(open('/verif/known_findings.json'))
for e in d['findings']:
    k = KEY.get(e['id'])
    if e['status'] == 'fixed' and k:
        hit = [l.split()[0] for l in log if k in l and l.split()[1] == 'fix:']
        assert len(hit) == 1, (e['id'], hit)
        e['commit'] = hit[0]
json.dump(d, open('/verif/known_findings.json', 'w'), indent=1, ensure_ascii=False)
print([(e['id'], e.get('commit')) for e in d['findings'] if e['status'] == 'fixed'])

#!/venv/bin/python
"""Write seeded/<id>/<k>/meta.json from mutation_matrix.json and the hand-written NEEDS table below."""
import json, os
V = os.path.dirname(os.path.dirname(os.path.abspath(__file__)))
NEEDS = json.load(open(os.path.join(V, 'tools', 'seeded_needs.json')))
M = json.load(open(os.path.join(V, 'mutation_matrix.json')))
for rel, ent in sorted(M.items()):
    if not rel.startswith('seeded/'):
        continue
    _, pid, k, _ = rel.split('/')
    key = '%s/%s' % (pid, k)
    need = NEEDS.get(key, {})
    meta = dict(property=pid, origin='independent sub-agent given only the property text and a scratch worktree',
                change=need.get('change', ''), needs_to_manifest=need.get('needs', ''),
                verified=dict(patch_applies=ent.get('applies'), pinned_tests_with_patch=ent.get('pinned_tests'),
                              demo_exit_with_patch=ent.get('demo_exit_with_patch'), demo_exit_unpatched=ent.get('demo_exit_unpatched'),
                              repo_head=ent.get('repo_head'),
                              how='tools/matrix.py --tests: scratch git worktree of /repo HEAD, git apply patch.diff, pinned pytest suite, demo.py with and without the patch, then ./check <ID> --tier quick with PROPKA_REPO pointing at the worktree; worktree removed afterwards'),
                detected_by={c: dict(exit=r['exit'], violation_classes=r['violation_classes']) for c, r in ent.get('checks', {}).items()},
                strengthening=need.get('strengthening', ''))
    json.dump(meta, open(os.path.join(V, 'seeded', pid, k, 'meta.json'), 'w'), indent=1)
print('meta written for', len([r for r in M if r.startswith('seeded/')]))

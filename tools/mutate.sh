#!/bin/sh
# tools/mutate.sh <patch.diff> <ID> [<ID>...]   (env: TESTS=1 runs the pinned test-suite on the mutant first; TIER=quick|thorough)
# Applies a patch to a scratch git worktree of /repo (outside /repo and /verif), runs the given checks against it
# with PROPKA_REPO, prints one line per check, and removes the worktree.
patch="$(realpath "$1")"; shift
dir=$(mktemp -d /tmp/pkmut-XXXXXX)
cleanup() { git -C /repo worktree remove --force "$dir/w" >/dev/null 2>&1; rm -rf "$dir"; git -C /repo worktree prune; }
trap cleanup EXIT
git -C /repo worktree add -q --detach "$dir/w" HEAD || exit 3
( cd "$dir/w" && git apply "$patch" ) || { echo "PATCH-FAILED $patch"; exit 3; }
if [ -n "$TESTS" ]; then
  echo "TESTS $(basename "$patch"): $( cd "$dir/w" && PYTHONDONTWRITEBYTECODE=1 PYTHONPATH="$dir/w" /venv/bin/python -m pytest -q -p no:cacheprovider --timeout=900 2>&1 | tail -1 )"
fi
for id in "$@"; do
  out=$(PROPKA_REPO="$dir/w" VERIF_EVIDENCE_DIR="$dir/evidence" /verif/check "$id" --tier "${TIER:-quick}" 2>&1); rc=$?
  nv=$(echo "$out" | grep -c '^VIOLATION')
  echo "MUTANT $(basename "$patch") check=$id exit=$rc violations=$nv :: $(echo "$out" | grep '^VIOLATION' | head -2 | cut -c1-260)"
  [ $rc -gt 1 ] && echo "$out" | tail -15
done
exit 0

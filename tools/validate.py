"""Validate MANIFEST.json and evidence/*.json against the schemas (python3-vt has jsonschema)."""
import glob, json, os, sys
import jsonschema
V = os.path.dirname(os.path.dirname(os.path.abspath(__file__)))
ms = json.load(open('/root/.vp/MANIFEST.schema.json')) if os.path.exists('/root/.vp/MANIFEST.schema.json') else None
es = json.load(open('/root/.vp/EVIDENCE.schema.json')) if os.path.exists('/root/.vp/EVIDENCE.schema.json') else None
bad = 0
if ms:
    jsonschema.validate(json.load(open(os.path.join(V, 'MANIFEST.json'))), ms)
for f in sorted(glob.glob(os.path.join(V, 'evidence', '*.json'))):
    try:
        if es:
            jsonschema.validate(json.load(open(f)), es)
    except Exception as exc:
        bad += 1
        print('INVALID', f, str(exc)[:200])
print('schemas ok' if not bad else 'schema problems: %d' % bad)
sys.exit(1 if bad else 0)

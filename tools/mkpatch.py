#!/venv/bin/python
"""tools/mkpatch.py OUT.patch FILE [FILE2 ...] < spec
spec: blocks 'OLD\n====\nNEW' separated by lines '@@@@ <file>' (first block applies to FILE).
Writes a unified diff (a/ b/ prefixes) against /repo's working tree; each OLD must occur exactly once."""
import difflib, sys
out = sys.argv[1]
spec = sys.stdin.read()
blocks = []
cur_file = sys.argv[2]
chunk = []
for ln in spec.split('\n'):
    if ln.startswith('@@@@ '):
        blocks.append((cur_file, '\n'.join(chunk)))
        cur_file = ln[5:].strip(); chunk = []
    else:
        chunk.append(ln)
blocks.append((cur_file, '\n'.join(chunk)))
texts = {}
for f, b in blocks:
    if not b.strip():
        continue
    old, new = b.split('\n====\n')
    old = old.strip('\n'); new = new.strip('\n')
    t = texts.get(f) or open('/repo/' + f).read()
    assert t.count(old) == 1, (f, t.count(old), old[:80])
    texts[f] = t.replace(old, new)
diff = ''
for f, t in texts.items():
    a = open('/repo/' + f).read().splitlines(True)
    diff += ''.join(difflib.unified_diff(a, t.splitlines(True), 'a/' + f, 'b/' + f))
open(out, 'w').write(diff)
print(out, len(diff.splitlines()), 'lines')

#!/venv/bin/python
"""Regenerate /verif/MANIFEST.json from the check modules that exist (run from /verif)."""
import importlib, json, os, sys
sys.path.insert(0, os.path.dirname(os.path.dirname(os.path.abspath(__file__))))
os.environ.setdefault('PROPKA_REPO', '/repo')
VERIF = os.path.dirname(os.path.dirname(os.path.abspath(__file__)))
props = [json.loads(l) for l in open(os.path.join(VERIF, 'properties.jsonl'))]
checks, na = [], []
NOT_BUILT = json.load(open(os.path.join(VERIF, 'tools', 'not_applicable.json')))
for p in props:
    pid = p['id']
    path = os.path.join(VERIF, 'pkmc', 'checks', pid.lower() + '.py')
    if not os.path.exists(path) or pid in NOT_BUILT:
        na.append(dict(property_id=pid, reason=NOT_BUILT.get(pid, 'check not built yet (work in progress, see DESIGN.md section 4)')))
        continue
    mod = importlib.import_module('pkmc.checks.' + pid.lower())
    checks.append(dict(
        property_id=pid,
        quick_cmd='./check %s --tier quick' % pid,
        thorough_cmd='./check %s --tier thorough' % pid,
        evidence_file='evidence/%s.json' % pid,
        replay_cmd_template='./check --replay {path}',
        engine='pkmc',
        level_claimed=dict(category=mod.LEVEL, text=mod.LEVEL_TEXT, design_ref=getattr(mod, 'DESIGN_REF', 'DESIGN.md section 4, ' + pid)),
        level_note=mod.LEVEL_NOTE,
        technique=mod.TECHNIQUE))
man = dict(
    version=1,
    setup_cmd='/venv/bin/python -m pkmc.selftest',
    hooks=dict(guard='PROPKA_VERIF',
               enable='no source hooks: checks import propka from /repo (or $PROPKA_REPO) and install their seams by monkeypatching inside forked workers; PROPKA_VERIF=1 is exported by ./check for form only',
               baseline_off_cmd='cd /repo && env -u PROPKA_VERIF /venv/bin/python -m pytest -ra -q -p no:cacheprovider --timeout=900 --continue-on-collection-errors',
               source_commits=[], add_only=True),
    engines=[dict(name='pkmc', path='pkmc/', serves_properties=[c['property_id'] for c in checks],
                  kind_free_text='hand-written explicit-state / stateless explorer for the real propka code: deterministic enumeration of bounded input, option, history and set-iteration-order spaces, fork-isolated workers, reference models and metamorphic oracles, replayable violations')],
    checks=checks,
    notes='All checks run the real code of the tree in /repo (override: PROPKA_REPO). VERIF_SEED only permutes shard dispatch and adds a rigid grid offset to generated coordinates; it never selects cases. See DESIGN.md.',
    not_applicable=na)
json.dump(man, open(os.path.join(VERIF, 'MANIFEST.json'), 'w'), indent=1)
print('checks:', [c['property_id'] for c in checks], 'not claimed:', [n['property_id'] for n in na])

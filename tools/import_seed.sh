#!/bin/sh
# tools/import_seed.sh <round> <ID>   e.g. tools/import_seed.sh 3 C09: copy /tmp/seed/R<round>-<ID>/out/{1,2} to seeded/<ID>/r<round>-{1,2}
r=$1; id=$2
for k in 1 2; do
  src=/tmp/seed/R$r-$id/out/$k
  [ -f $src/patch.diff ] || { echo "no $src/patch.diff"; continue; }
  dst=/verif/seeded/$id/r$r-$k
  mkdir -p $dst
  cp $src/patch.diff $dst/; [ -f $src/demo.py ] && cp $src/demo.py $dst/; [ -f $src/notes.md ] && cp $src/notes.md $dst/
  echo "imported $dst: $(grep -c '^+++' $dst/patch.diff) files, $(wc -l < $dst/patch.diff) lines"
done

#!/venv/bin/python
"""Regenerate DESIGN.md section 8.1 (between the MATRIX markers) from mutation_matrix.json and tools/seeded_needs.json."""
import json, os, re
V = os.path.dirname(os.path.dirname(os.path.abspath(__file__)))
m = json.load(open(os.path.join(V, 'mutation_matrix.json')))
needs = json.load(open(os.path.join(V, 'tools', 'seeded_needs.json')))
rows, n, own, other, missed = [], 0, 0, 0, []
for rel, ent in sorted(m.items()):
    if not rel.startswith('seeded/'):
        continue
    _, pid, k, _ = rel.split('/')
    key = '%s/%s' % (pid, k)
    nd = needs.get(key, {})
    det = [c for c, r in ent.get('checks', {}).items() if r['exit'] == 1]
    n += 1
    if pid in det:
        own += 1
    elif det:
        other += 1
    else:
        missed.append(key)
    rows.append('| %s | %s | %s | %s | %s |' % (key, nd.get('change', ''), nd.get('needs', ''), ', '.join(det) or '**none**',
                                               nd.get('strengthening', '')))
mine = sorted(r for r in m if r.startswith('mutants/'))
MUTANT_NOTES = {
    'mutants/C17-4.patch': ' - it takes back the repair of KF-C20-1 (axis anti-parallel to z); for the hydrogen builder the turn by -theta '
                           'only swaps which of two symmetric positions is filled first, so the set of hydrogens is unchanged and C17 rightly '
                           'stays silent; it is a C20 change and C20 reports it (run with --also=C20)',
    'mutants/C07-4.patch': ' - an equivalent mutant, kept as a reminder: it sets the internal `charge` attribute of every backbone nitrogen '
                           'to 1 before `--protonate-all` places hydrogens, but the same hydrogens are placed at the same positions and no '
                           'reported number, written file or log line changes (compared atom by atom and group by group on the twelve '
                           'example structures with and without the patch: only that attribute differs); silence is the right answer',
}
text = ['### 8.1 Seeded changes (independent sub-agents; each passes the 49 pinned tests; demo fails with / passes without the patch)', '',
        '%d changes; %d are reported by the quick check of their own property, %d only by the check of another property '
        '(named in the table), %d by none%s.  "strengthening" says what was added to a check after it had missed the change.' % (
            n, own, other, len(missed), (': ' + ', '.join(missed)) if missed else ''), '',
        '| change | what it is | needs, to manifest | reported by (quick tier) | strengthening made because of it |', '|---|---|---|---|---|'] + rows
text += ['', '### 8.2 My own sanity mutants (`mutants/*.patch`)', '',
         'Small hand-made changes used while building each check (several fail the pinned tests and are kept only to show that the '
         'check can fail); equivalent mutants found on the way were deleted and are described in 7.3.', '']
for r in mine:
    ent = m[r]
    det = [c for c, x in ent.get('checks', {}).items() if x['exit'] == 1]
    text.append('* `%s`: pinned tests %s; reported by %s%s' % (r, ent.get('pinned_tests', 'n/a'), ', '.join(det) or 'none',
                                                              MUTANT_NOTES.get(r, '')))
# 8.3 behaviour-preserving refactorings: the false-alarm test
head = os.popen('git -C /repo rev-parse --short HEAD').read().strip()
rf = sorted(r for r in m if r.startswith('refactorings/'))
done = [r for r in rf if len(m[r].get('checks', {})) == 20 and m[r].get('repo_head') == head]
stale = [r for r in rf if len(m[r].get('checks', {})) == 20 and m[r].get('repo_head') != head]
alarms = [(r, c) for r in rf for c, x in m[r].get('checks', {}).items() if x['exit'] != 0]
nrf = len([d for d in os.listdir(os.path.join(V, 'refactorings')) for k in os.listdir(os.path.join(V, 'refactorings', d))])
text += ['', '### 8.3 Behaviour-preserving refactorings (`refactorings/RF*/*/patch.diff`): the false-alarm test', '',
         'Forty patches written by ten independent sub-agents (each was told to restructure one area of the package without changing any '
         'observable behaviour, and verified that itself: 49 tests, byte-identical results, logs and written files over all example structures '
         'and option sets).  A check that raises an alarm on one of them is wrong (or the refactoring is not equivalent - none was).  Each patch '
         'is run against ALL twenty quick checks; a full pass of the forty patches costs five hours of the whole machine, so not every patch '
         'could be re-run after the last strengthening of the checks:', '',
         '* run against the final tree with the checks as they stood in the last hours (%s): %d patches, %d check runs, all exit 0: %s' % (
             head, len(done), 20 * len(done), ', '.join(r.split('/', 1)[1].rsplit('/', 1)[0] for r in done)),
         '* run against earlier versions of the checks (all exit 0 then; not repeated): %s' % (
             ', '.join(r.split('/', 1)[1].rsplit('/', 1)[0] for r in stale) or 'none'),
         '* not run: %d patches' % (nrf - len(done) - len(stale)),
         '* alarms: %s' % (', '.join('%s by %s' % a for a in alarms) or 'none')]
p = os.path.join(V, 'DESIGN.md')
s = open(p).read()
block = '<!-- MATRIX BEGIN -->\n' + '\n'.join(text) + '\n<!-- MATRIX END -->'
if '<!-- MATRIX BEGIN -->' in s:
    s = re.sub(r'<!-- MATRIX BEGIN -->.*<!-- MATRIX END -->', lambda _: block, s, flags=re.S)
else:
    s = s.replace('(see 8.1 below)', block)
open(p, 'w').write(s)
print('matrix: %d seeded, own %d, other %d, missed %s; %d own mutants' % (n, own, other, missed, len(mine)))

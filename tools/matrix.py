#!/venv/bin/python
"""tools/matrix.py [--tests] [--all-checks] [patterns...]
Runs every patch in mutants/ and seeded/*/*/patch.diff (or those whose path contains a pattern) against the quick check of its
property (first path component C\\d\\d) in a scratch git worktree, and records the outcome in mutation_matrix.json."""
import glob, json, os, re, shutil, subprocess, sys, tempfile, time
V = os.path.dirname(os.path.dirname(os.path.abspath(__file__)))
args = [a for a in sys.argv[1:] if not a.startswith('--')]
TESTS = '--tests' in sys.argv
ALL = '--all-checks' in sys.argv
patches = sorted(glob.glob(os.path.join(V, 'mutants', '*.patch')) + glob.glob(os.path.join(V, 'seeded', '*', '*', 'patch.diff'))
                 + glob.glob(os.path.join(V, 'refactorings', '*', '*', 'patch.diff')))
if args:
    patches = [p for p in patches if any(a in p for a in args)]
out_path = os.path.join(V, 'mutation_matrix.json')
matrix = json.load(open(out_path)) if os.path.exists(out_path) else {}
ids = sorted(json.loads(l)['id'] for l in open(os.path.join(V, 'properties.jsonl')))
for p in patches:
    rel = os.path.relpath(p, V)
    mm = re.search(r'(C\d\d)', rel)
    pid = mm.group(1) if mm else 'ALL'     # behaviour-preserving refactorings are run against every check and must stay silent
    d = tempfile.mkdtemp(prefix='pkmut-', dir='/tmp')
    w = os.path.join(d, 'w')
    try:
        subprocess.run(['git', '-C', '/repo', 'worktree', 'add', '-q', '--detach', w, 'HEAD'], check=True)
        r = subprocess.run(['git', 'apply', p], cwd=w, capture_output=True, text=True)
        ent = matrix.setdefault(rel, {})
        ent['property'] = pid
        ent['repo_head'] = subprocess.run(['git', '-C', '/repo', 'rev-parse', '--short', 'HEAD'], capture_output=True, text=True).stdout.strip()
        if r.returncode != 0:
            ent['applies'] = False
            print(rel, 'PATCH DOES NOT APPLY', r.stderr[:200])
            continue
        ent['applies'] = True
        if TESTS:
            t = subprocess.run(['/venv/bin/python', '-m', 'pytest', '-q', '-p', 'no:cacheprovider', '--timeout=900'], cwd=w,
                               env=dict(os.environ, PYTHONPATH=w, PYTHONDONTWRITEBYTECODE='1'), capture_output=True, text=True)
            ent['pinned_tests'] = t.stdout.strip().splitlines()[-1] if t.stdout.strip() else 'no output'
        demo = os.path.join(os.path.dirname(p), 'demo.py')
        if os.path.exists(demo):
            dm = subprocess.run(['/venv/bin/python', demo, w], capture_output=True, text=True, cwd=d, env=dict(os.environ, PYTHONDONTWRITEBYTECODE='1'))
            ent['demo_exit_with_patch'] = dm.returncode
            dm0 = subprocess.run(['/venv/bin/python', demo, '/repo'], capture_output=True, text=True, cwd=d, env=dict(os.environ, PYTHONDONTWRITEBYTECODE='1'))
            ent['demo_exit_unpatched'] = dm0.returncode
        also = [a.split('=')[1] for a in sys.argv[1:] if a.startswith('--also=')]
        for cid in (ids if (ALL or pid == 'ALL') else [pid] + also):
            t0 = time.time()
            c = subprocess.run([os.path.join(V, 'check'), cid, '--tier', os.environ.get('TIER', 'quick')],
                               env=dict(os.environ, PROPKA_REPO=w, VERIF_EVIDENCE_DIR=os.path.join(d, 'evidence')), capture_output=True, text=True)
            keys = re.findall(r'^VIOLATION .*?#\s*(\S+?):\s', c.stdout, re.M)
            ent.setdefault('checks', {})[cid] = dict(exit=c.returncode, violation_classes=keys[:8], wall_s=round(time.time() - t0, 1))
            print('%-40s %s exit=%d classes=%s' % (rel, cid, c.returncode, keys[:3]), ent.get('pinned_tests', ''))
            if c.returncode > 1:
                print(c.stdout[-800:])
    finally:
        subprocess.run(['git', '-C', '/repo', 'worktree', 'remove', '--force', w], capture_output=True)
        shutil.rmtree(d, ignore_errors=True)
        subprocess.run(['git', '-C', '/repo', 'worktree', 'prune'])
    # merge on write: other matrix runs may have updated the file meanwhile
    import fcntl
    with open(out_path + '.lock', 'w') as lk:
        fcntl.flock(lk, fcntl.LOCK_EX)
        cur = json.load(open(out_path)) if os.path.exists(out_path) else {}
        cur[rel] = matrix[rel]
        json.dump(cur, open(out_path, 'w'), indent=1, sort_keys=True)

"""Named, deterministic input corpora shared by the metamorphic checks (DESIGN 3.4: S2, S3, S4).

Every function returns a list of JSON-able descriptors; build(desc, seed) turns one into a gen.S.
Nothing is sampled: the lists are complete products of small alphabets or complete sweeps of the
frozen structures.
"""
import itertools
import math

from . import gen

PROT_T = ('ASP', 'GLU', 'HIS', 'CYS', 'TYR', 'LYS', 'ARG')            # titratable side chains
PROT_N = ('SER', 'THR', 'ASN', 'GLN', 'TRP', 'ASNO', 'GLNO')                        # non-titratable partners
TERM = ('N+', 'C-')
LIG_T = ('MGU', 'AMI', 'NH4', 'MAM', 'DMA', 'TMA', 'PYR', 'ACT', 'MSH', 'MPO')     # titratable ligand groups
LIG_N = ('ACN', 'CFM', 'CCL', 'MOH', 'DME', 'ACO', 'NMA', 'ANL')
ION_Q = ('CA', 'CL', 'ZN', 'NA')
ALL_IONS = tuple(gen.IONS)


def pair_desc(a, b, d, level='exposed', spin=0):
    return dict(t='pair', a=a, b=b, d=d, level=level, spin=spin)


def cluster_desc(kinds, layout, d, level):
    return dict(t='cluster', kinds=list(kinds), layout=layout, d=d, level=level)


def window_desc(key, chain, start_index, k, strip=None):
    d = dict(t='window', key=key, chain=chain, i=start_index, k=k)
    if strip:
        d['strip'] = strip      # 'tips': ionizable side chains cut down to the defining atom of their group
    return d


TIPS_KEEP = {'ASP': ('CB', 'CG'), 'GLU': ('CB', 'CG', 'CD'), 'HIS': ('CB', 'CG'), 'ARG': ('CB', 'CG', 'CD', 'CZ'), 'TYR': ('CB', 'OH'),
             'LYS': ('CB', 'NZ'), 'CYS': ('SG',)}


def cutout_desc(key, chain, index, radius=10.0):
    return dict(t='cutout', key=key, chain=chain, i=index, r=radius)


def chain_desc(key, chain):
    return dict(t='chain', key=key, chain=chain)


def file_desc(key):
    return dict(t='file', key=key)


def build(desc, seed=0):
    off = gen.seed_offset(seed)
    lib = gen.library()
    t = desc['t']
    if t in ('pair', 'cluster'):
        if t == 'pair':
            s = gen.pair(desc['a'], desc['b'], desc['d'], spin=desc.get('spin', 0), level=desc['level'], offset=off)
        else:
            s = gen.cluster(tuple(desc['kinds']), desc['layout'], desc['d'], desc['level'], offset=off)
        if gen.interpart_clash(s):
            raise gen.Skip('clash')
        return s
    if t == 'bbbridge':
        s = gen.backbone_bridge(desc['lig'], which=desc['which'], level=desc['level'], offset=off)
        if gen.interpart_clash(s):
            raise gen.Skip('clash')
        return s
    if t == 'window':
        res = lib.protein_residues(desc['key'], desc['chain'])
        s = gen.S([a.clone() for _, v in res[desc['i']:desc['i'] + desc['k']] for a in v])
        for a in s.atoms:
            a.alt = ' '
        if desc.get('strip') == 'tips':
            s = gen.S([a for a in s.atoms if a.resname not in TIPS_KEEP or a.name in gen.BACKBONE + ('OXT',) + TIPS_KEEP[a.resname]])
        return s.translate(off)
    if t == 'cutout':
        return cutout(desc).translate(off)
    if t == 'chain':
        return lib.chain_struct(desc['key'], desc['chain']).translate(off)
    if t == 'file':
        return gen.parse_text(lib.text(desc['key']))
    raise KeyError(t)


def cutout(desc):
    """Whole residues (and hetero groups) with any atom within r of the centre residue; TER between chains."""
    lib = gen.library()
    res = lib.residues(desc['key'])
    prot = lib.protein_residues(desc['key'], desc['chain'])
    centre = prot[desc['i']][1]
    r2 = (desc['r'] * 1000) ** 2
    cpts = [(a.x, a.y, a.z) for a in centre if a.name not in gen.BACKBONE] or [(a.x, a.y, a.z) for a in centre]
    items, last_chain, last_idx = [], None, None
    for idx, (rk, atoms) in enumerate(res):
        if atoms[0].resname in ('HOH',):
            continue
        near = any((a.x - c[0]) ** 2 + (a.y - c[1]) ** 2 + (a.z - c[2]) ** 2 < r2 for a in atoms for c in cpts)
        if not near:
            continue
        # TER between chains and at every gap, so that each fragment starts with a proper N-terminus
        if last_chain is not None and (rk[0] != last_chain or idx != last_idx + 1):
            items.append('TER\n')
        elif last_chain is not None and [rk[0], rk[1]] in desc.get('ter_before', []):
            items.append('TER\n')   # an extra chain break requested by the check
        last_chain, last_idx = rk[0], idx
        for a in atoms:
            b = a.clone()
            b.alt = ' '
            items.append(b)
    return gen.S(items)


# ------------------------------------------------------------------ S2
def pairs(tier, kinds_a=None, kinds_b=None, dists=None, levels=None):
    ka = kinds_a or (PROT_T + TERM + LIG_T[:4])
    kb = kinds_b or (PROT_T + PROT_N + TERM + LIG_T + LIG_N + ION_Q)
    dists = dists or ((3.0,) if tier == 'quick' else (2.7, 3.0, 3.6, 4.5, 7.0, 9.5))
    levels = levels or (('mid',) if tier == 'quick' else ('exposed', 'mid', 'deep'))
    out = []
    for a in ka:
        for b in kb:
            if a in gen.IONS and b in gen.IONS:
                continue
            for d in dists:
                for lv in levels:
                    out.append(pair_desc(a, b, d, lv))
    return out


# ------------------------------------------------------------------ S3
def clusters(tier, kinds=None, size=3):
    kinds = kinds or ('ASP', 'GLU', 'HIS', 'CYS', 'TYR', 'LYS', 'ARG', 'N+', 'C-', 'ACT', 'PYR', 'MAM')
    if tier == 'quick':
        kinds = ('ASP', 'GLU', 'HIS', 'TYR', 'LYS', 'CYS')
    out = []
    for ks in itertools.combinations_with_replacement(kinds, size):
        for layout in (('line', 'star') if tier == 'thorough' else ('line',)):
            for lv in (('exposed', 'mid', 'deep') if tier == 'thorough' else ('mid', 'deep')):
                out.append(cluster_desc(ks, layout, 3.0, lv))
    return out


# ------------------------------------------------------------------ S4
def chains_of(key):
    lib = gen.library()
    seen = []
    for rk, _ in lib.protein_residues(key):
        if rk[0] not in seen:
            seen.append(rk[0])
    return seen


def windows(tier, k=5, step=None):
    lib = gen.library()
    out = []
    for key in gen.PROTEINS:
        for ch in chains_of(key):
            n = len(lib.protein_residues(key, ch))
            st = step or (k if tier == 'thorough' else 3 * k)
            for i in range(0, n - k + 1, st):
                out.append(window_desc(key, ch, i, k))
    return out


def cutouts(tier, radius=10.0, every=None):
    lib = gen.library()
    out = []
    for key in gen.PROTEINS:
        for ch in chains_of(key):
            res = lib.protein_residues(key, ch)
            idx = [i for i, (rk, _) in enumerate(res) if rk[3] in gen.TITR]
            ev = every or (1 if tier == 'thorough' else 6)
            for i in idx[::ev]:
                out.append(cutout_desc(key, ch, i, radius))
    return out


def whole_chains():
    return [chain_desc(key, ch) for key in gen.PROTEINS for ch in chains_of(key)]

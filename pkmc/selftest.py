"""setup_cmd: nothing to build (pure Python); verify that the pieces are in place."""
import importlib, json, os, sys
from . import VERIF, REPO, bind_repo
p = bind_repo()
from . import gen, cmp, pk, core  # noqa
lib = gen.library()
assert len(lib.protein_residues('3SGB', 'I')) > 40
man = json.load(open(os.path.join(VERIF, 'MANIFEST.json')))
for c in man['checks']:
    importlib.import_module('pkmc.checks.' + c['property_id'].lower())
json.load(open(os.path.join(VERIF, 'known_findings.json')))
os.makedirs(os.path.join(VERIF, 'evidence'), exist_ok=True)
try:
    import subprocess
    r = subprocess.run(['python3-vt', os.path.join(VERIF, 'tools', 'validate.py')], capture_output=True, text=True, timeout=120)
    print(r.stdout.strip()[-400:] or r.stderr.strip()[-400:])
except Exception as exc:   # jsonschema lives in the tooling venv only; not fatal
    print('schema validation skipped:', exc)
print('pkmc selftest ok: propka from', os.path.dirname(p.__file__), '- checks:', len(man['checks']))

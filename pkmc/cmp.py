"""Comparators for observation records (DESIGN 3.3).  Diffs come out ordered by pipeline stage."""

TOL = 1e-9
STAGES = ['conformations', 'groups', 'identity', 'num_volume', 'buried', 'energy_volume', 'energy_local',
          'backbone', 'sidechain', 'coulomb', 'pka', 'coupled', 'penalised', 'chains', 'text']


def close(a, b, tol=TOL):
    if a is None or b is None:
        return a is b
    return abs(a - b) <= tol * max(1.0, abs(a), abs(b))


def _detmap(dets, keymap):
    out = {}
    for pk_, label, val in dets:
        k = keymap(pk_) if keymap else pk_
        out.setdefault(k, []).append(val)
    for k in out:
        out[k].sort()
    return out


def diff_groups(ga, gb, tol=TOL, keymap=None, labels=True):
    """Field-by-field diff of two group records; keymap maps partner keys of `ga` into gb's key space."""
    d = []
    gk = ga['key']
    for f in ('type', 'residue_type', 'titratable', 'charge', 'use', 'bridge'):
        if ga[f] != gb[f]:
            d.append(('identity', gk, f, ga[f], gb[f]))
    if not close(ga['model_pka'], gb['model_pka'], tol):
        d.append(('identity', gk, 'model_pka', ga['model_pka'], gb['model_pka']))
    if labels and ga['label'] != gb['label']:
        d.append(('identity', gk, 'label', ga['label'], gb['label']))
    for f, stage in (('num_volume', 'num_volume'), ('buried', 'buried'), ('energy_volume', 'energy_volume'),
                     ('energy_local', 'energy_local'), ('num_local', 'energy_local')):
        if not close(ga[f], gb[f], tol):
            d.append((stage, gk, f, ga[f], gb[f]))
    for t in ('backbone', 'sidechain', 'coulomb'):
        ma, mb = _detmap(ga['dets'][t], keymap), _detmap(gb['dets'][t], None)
        if set(ma) != set(mb):
            d.append((t, gk, 'partners', sorted(set(ma) - set(mb)), sorted(set(mb) - set(ma))))
            continue
        for k in ma:
            if len(ma[k]) != len(mb[k]) or any(not close(x, y, tol) for x, y in zip(ma[k], mb[k])):
                d.append((t, gk, 'value@' + k, ma[k], mb[k]))
    if not close(ga['pka'], gb['pka'], tol):
        d.append(('pka', gk, 'pka', ga['pka'], gb['pka']))
    ca = sorted((keymap(k) if keymap else k) for k in ga['coupled'])
    if ca != sorted(gb['coupled']):
        d.append(('coupled', gk, 'coupled', ca, gb['coupled']))
    pa = ga['penalised_by']
    pa = keymap(pa) if (keymap and pa) else pa
    if pa != gb['penalised_by']:
        d.append(('penalised', gk, 'penalised_by', pa, gb['penalised_by']))
    return d


def diff_conf(ca, cb, tol=TOL, keymap=None, labels=True, only=None):
    """Diff two conformation records.  Groups are matched by (mapped) key; duplicates by order."""
    import collections
    d = []
    ka = [(keymap(g['key']) if keymap else g['key']) for g in ca['groups']]
    kb = [g['key'] for g in cb['groups']]
    sel = [i for i in range(len(ka)) if only is None or only(ca['groups'][i])]
    ma = collections.Counter(ka[i] for i in sel)
    mb = collections.Counter(kb)
    missing = ma - mb
    extra = (mb - ma) if only is None else collections.Counter()
    if missing or extra:
        d.append(('groups', '*', 'keys', sorted(missing.elements()), sorted(extra.elements())))
    seen = {}
    idx_b = {}
    for j, k in enumerate(kb):
        idx_b.setdefault(k, []).append(j)
    for i in sel:
        k = ka[i]
        n = seen.get(k, 0)
        seen[k] = n + 1
        js = idx_b.get(k, [])
        if n >= len(js):
            continue
        d += diff_groups(ca['groups'][i], cb['groups'][js[n]], tol, keymap, labels)
    d.sort(key=lambda t: STAGES.index(t[0]))
    return d


def diff_records(ra, rb, tol=TOL, keymap=None, labels=True, confs=None, text=True):
    d = []
    if ra['conformations'] != rb['conformations']:
        d.append(('conformations', '*', 'names', ra['conformations'], rb['conformations']))
        return d
    for name in (confs or list(ra['confs'].keys())):
        if name not in rb['confs']:
            d.append(('conformations', name, 'missing', name, None))
            continue
        d += [(s, name + '/' + str(k), f, a, b) for (s, k, f, a, b) in
              diff_conf(ra['confs'][name], rb['confs'][name], tol, keymap, labels)]
        if ra['confs'][name]['chains'] != rb['confs'][name]['chains'] and keymap is None:
            d.append(('chains', name, 'chains', ra['confs'][name]['chains'], rb['confs'][name]['chains']))
    if text and 'text' in ra and 'text' in rb and ra['text'] != rb['text']:
        la, lb = ra['text'].split('\n'), rb['text'].split('\n')
        for i, (x, y) in enumerate(zip(la, lb)):
            if x != y:
                d.append(('text', 'line%d' % i, 'text', x, y))
                break
        else:
            d.append(('text', 'length', 'text', len(la), len(lb)))
    d.sort(key=lambda t: STAGES.index(t[0]))
    return d


def first_stage(diff):
    return diff[0][0] if diff else None

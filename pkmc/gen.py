"""Input generators: PDB atom model on the 0.001 A grid, frozen fragment library, docking, burial shells.

Nothing here imports propka.  All coordinates are integers in milli-Angstrom, so every rigid motion
used by the checks (grid translations, axis-permuting rotations) is exact.
"""
import collections
import copy
import functools
import itertools
import math
import os

from . import VERIF

DATA = os.path.join(VERIF, 'data', 'pdb')
PROTEINS = {'3SGB': '3SGB.pdb', '1HPX': '1HPX.pdb', '4DFR': '4DFR.pdb', '1FTJ': '1FTJ-Chain-A.pdb'}
TITR = ('ASP', 'GLU', 'HIS', 'CYS', 'TYR', 'LYS', 'ARG')
BACKBONE = ('N', 'CA', 'C', 'O')


class A:
    """One ATOM/HETATM record."""
    __slots__ = ('rec', 'serial', 'name4', 'alt', 'resname', 'chain', 'resnum', 'icode',
                 'x', 'y', 'z', 'occ', 'b', 'tail')

    def __init__(self, rec='ATOM  ', serial='    1', name4=' CA ', alt=' ', resname='ALA', chain='A',
                 resnum=1, icode=' ', x=0, y=0, z=0, occ='  1.00', b='  0.00', tail=''):
        self.rec, self.serial, self.name4, self.alt = rec, serial, name4, alt
        self.resname, self.chain, self.resnum, self.icode = resname, chain, resnum, icode
        self.x, self.y, self.z, self.occ, self.b, self.tail = x, y, z, occ, b, tail

    @classmethod
    def parse(cls, line):
        line = line.rstrip('\n').ljust(80)
        return cls(line[0:6], line[6:11], line[12:16], line[16], line[17:20], line[21],
                   int(line[22:26]), line[26],
                   int(round(float(line[30:38]) * 1000)), int(round(float(line[38:46]) * 1000)),
                   int(round(float(line[46:54]) * 1000)), line[54:60], line[60:66], line[66:80])

    @property
    def name(self):
        return self.name4.strip()

    @property
    def element(self):
        """Element as propka infers it from the name columns."""
        e = self.name4[0:2].strip().strip('0123456789')
        if len(self.name4.strip()) == 4:
            e = e[0]
        if len(e) == 2:
            e = e[0] + e[1].lower()
        return e

    @property
    def reskey(self):
        return (self.chain, self.resnum, self.icode)

    @property
    def xyz(self):
        return (self.x / 1000.0, self.y / 1000.0, self.z / 1000.0)

    def line(self):
        return '%-6s%5s %4s%1s%3s %1s%4d%1s   %8.3f%8.3f%8.3f%6s%6s%s\n' % (
            self.rec, self.serial, self.name4, self.alt, self.resname, self.chain, self.resnum,
            self.icode, self.x / 1000.0, self.y / 1000.0, self.z / 1000.0, self.occ, self.b,
            self.tail.rstrip() and self.tail or '')

    def clone(self):
        c = A.__new__(A)
        for s in A.__slots__:
            setattr(c, s, getattr(self, s))
        return c


def name4(name, element=None):
    """PDB name field for an atom name (element left-justified in cols 13-14 if 2 letters)."""
    if len(name) >= 4:
        return name[:4]
    if element and len(element) == 2:
        return '%-4s' % name
    return ' %-3s' % name


class S:
    """A structure: ordered items, each an A or a raw record line (TER, MODEL, REMARK ...)."""

    def __init__(self, items=None):
        self.items = list(items or [])

    @property
    def atoms(self):
        return [i for i in self.items if isinstance(i, A)]

    def copy(self):
        return S([i.clone() if isinstance(i, A) else i for i in self.items])

    def __add__(self, other):
        return S(self.items + (other.items if isinstance(other, S) else list(other)))

    def residues(self):
        out = collections.OrderedDict()
        for a in self.atoms:
            out.setdefault(a.reskey + (a.resname,), []).append(a)
        return out

    def translate(self, t):
        for a in self.atoms:
            a.x += t[0]
            a.y += t[1]
            a.z += t[2]
        return self

    def rotate(self, rot):
        """rot = (perm, signs): new[i] = signs[i]*old[perm[i]] (exact on the grid)."""
        perm, signs = rot
        for a in self.atoms:
            c = (a.x, a.y, a.z)
            a.x, a.y, a.z = signs[0] * c[perm[0]], signs[1] * c[perm[1]], signs[2] * c[perm[2]]
        return self

    def relabel(self, chain=None, shift=0):
        for a in self.atoms:
            if chain is not None:
                a.chain = chain
            a.resnum += shift
        return self

    def renumber_serials(self, start=1):
        for i, a in enumerate(self.atoms):
            a.serial = '%5d' % (start + i)
        return self

    def extent(self):
        at = self.atoms
        return [(min(getattr(a, c) for a in at), max(getattr(a, c) for a in at)) for c in 'xyz']


def to_text(s):
    items = s.items if isinstance(s, S) else s
    return ''.join(i.line() if isinstance(i, A) else i for i in items)


def parse_text(text):
    items = []
    for ln in text.splitlines(True):
        if ln.startswith(('ATOM  ', 'HETATM')):
            items.append(A.parse(ln))
        else:
            items.append(ln if ln.endswith('\n') else ln + '\n')
    return S(items)


ROTATIONS = []
for _perm in itertools.permutations(range(3)):
    for _sg in itertools.product((1, -1), repeat=3):
        m = [[0] * 3 for _ in range(3)]
        for _i in range(3):
            m[_i][_perm[_i]] = _sg[_i]
        det = (m[0][0] * (m[1][1] * m[2][2] - m[1][2] * m[2][1]) - m[0][1] * (m[1][0] * m[2][2] - m[1][2] * m[2][0])
               + m[0][2] * (m[1][0] * m[2][1] - m[1][1] * m[2][0]))
        if det == 1:
            ROTATIONS.append((_perm, _sg))
ROTATIONS.sort(key=lambda r: (r != ((0, 1, 2), (1, 1, 1)), r))
assert len(ROTATIONS) == 24 and ROTATIONS[0] == ((0, 1, 2), (1, 1, 1))


def seed_offset(seed):
    """Don't-care rigid offset on the grid, derived from VERIF_SEED (zero for seed 0)."""
    if not seed:
        return (0, 0, 0)
    import random
    r = random.Random(seed * 7919 + 13)
    return tuple(r.randrange(-40000, 40001) for _ in range(3))


# ------------------------------------------------------------------ library
class Lib:
    def __init__(self):
        self.structs = {}
        for key, fn in PROTEINS.items():
            with open(os.path.join(DATA, fn)) as fh:
                self.structs[key] = parse_text(fh.read())
        self._res = {}

    def text(self, key):
        with open(os.path.join(DATA, PROTEINS.get(key, key))) as fh:
            return fh.read()

    def residues(self, key, chain=None):
        """Ordered list of (reskey+resname, [A...]) of ATOM records (first alt-loc only)."""
        ck = (key, chain)
        if ck not in self._res:
            out = collections.OrderedDict()
            for a in self.structs[key].atoms:
                if chain is not None and a.chain != chain:
                    continue
                if a.alt not in (' ', 'A'):
                    continue
                out.setdefault(a.reskey + (a.resname,), []).append(a)
            self._res[ck] = list(out.items())
        return self._res[ck]

    def protein_residues(self, key, chain=None):
        return [(k, v) for k, v in self.residues(key, chain) if v[0].rec == 'ATOM  ']

    def chain_struct(self, key, chain):
        s = S([a.clone() for k, v in self.residues(key, chain) for a in v if a.rec == 'ATOM  '])
        for a in s.atoms:
            a.alt = ' '
        return s

    def window(self, key, chain, start, k):
        """k consecutive protein residues of a chain starting at residue number `start`."""
        res = self.protein_residues(key, chain)
        idx = [i for i, (rk, _) in enumerate(res) if rk[1] == start][0]
        s = S([a.clone() for _, v in res[idx:idx + k] for a in v])
        for a in s.atoms:
            a.alt = ' '
        return s

    def fragment(self, key, chain, index, left=True, right=True):
        """Residue `index` (position in the chain) between two capping stubs (DESIGN 3.4).

        The predecessor is reduced to CA-C-O and the successor to N-CA so that the fragment has
        neither N+ nor C- and the backbone amide/carbonyl of the residue keep their partners.
        """
        res = self.protein_residues(key, chain)
        items = []
        if left and index > 0:
            items += [a.clone() for a in res[index - 1][1] if a.name in ('CA', 'C', 'O')]
        items += [a.clone() for a in res[index][1] if a.name not in ('OXT', "O''")]
        if right and index + 1 < len(res):
            items += [a.clone() for a in res[index + 1][1] if a.name in ('N', 'CA')]
        s = S(items)
        for a in s.atoms:
            a.alt = ' '
        return s

    def find(self, key, chain, resname, nth=0, complete=True):
        """Index (in chain) of the nth residue of a type (complete = has the expected atom count)."""
        hits = []
        res = self.protein_residues(key, chain)
        for i, (rk, atoms) in enumerate(res):
            if rk[3] == resname and 0 < i < len(res) - 1:
                if not complete or len(atoms) == EXPECTED_ATOMS.get(resname, len(atoms)):
                    hits.append(i)
        return hits[nth]


EXPECTED_ATOMS = {'ALA': 5, 'ARG': 11, 'ASN': 8, 'ASP': 8, 'CYS': 6, 'GLY': 4, 'GLN': 9, 'GLU': 9, 'HIS': 10,
                  'ILE': 8, 'LEU': 8, 'LYS': 9, 'MET': 8, 'PHE': 11, 'PRO': 7, 'SER': 6, 'THR': 7, 'TRP': 14,
                  'TYR': 12, 'VAL': 7}


@functools.lru_cache(maxsize=1)
def library():
    return Lib()


# ------------------------------------------------------------------ small-molecule templates
def _pol(r, deg, z=0.0):
    return (r * math.cos(math.radians(deg)), r * math.sin(math.radians(deg)), z)


_TET = [(1, 1, 1), (1, -1, -1), (-1, 1, -1), (-1, -1, 1)]


def _tet(i, r):
    v = _TET[i]
    n = math.sqrt(3)
    return tuple(r * c / n for c in v)


def _addv(a, b):
    return tuple(x + y for x, y in zip(a, b))


def _templates():
    mol = collections.OrderedDict()
    ne = _pol(1.33, 90)
    # name -> (atoms [(name, element, xyz)], {atom name: expected group type}, interaction atom)
    mol['MGU'] = ([('CZ', 'C', (0, 0, 0)), ('NE', 'N', ne), ('NH1', 'N', _pol(1.33, 210)), ('NH2', 'N', _pol(1.33, 330)),
                   ('CD', 'C', _addv(ne, _pol(1.46, 150)))], {'CZ': 'CG'}, 'NH1')
    mol['AMI'] = ([('C1', 'C', (0, 0, 0)), ('N1', 'N', _pol(1.32, 210)), ('N2', 'N', _pol(1.32, 330)),
                   ('C2', 'C', _pol(1.50, 90))], {'C1': 'C2N'}, 'N1')
    mol['NH4'] = ([('N1', 'N', (0, 0, 0))], {'N1': 'N30'}, 'N1')
    mol['MAM'] = ([('N1', 'N', (0, 0, 0)), ('C1', 'C', _tet(0, 1.47))], {'N1': 'N31'}, 'N1')
    mol['DMA'] = ([('N1', 'N', (0, 0, 0)), ('C1', 'C', _tet(0, 1.47)), ('C2', 'C', _tet(1, 1.47))], {'N1': 'N32'}, 'N1')
    mol['TMA'] = ([('N1', 'N', (0, 0, 0)), ('C1', 'C', _tet(0, 1.47)), ('C2', 'C', _tet(1, 1.47)),
                   ('C3', 'C', _tet(2, 1.47))], {'N1': 'N33'}, 'N1')
    mol['PYR'] = ([('N1', 'N', _pol(1.39, 0))] + [('C%d' % i, 'C', _pol(1.39, 60 * i)) for i in range(1, 6)],
                  {'N1': 'NAR'}, 'N1')
    mol['ACN'] = ([('C1', 'C', (0, 0, 0)), ('N1', 'N', (1.16, 0, 0)), ('C2', 'C', (-1.46, 0, 0))], {'N1': 'N1'}, 'N1')
    mol['MSH'] = ([('S1', 'S', (0, 0, 0)), ('C1', 'C', _tet(0, 1.82))], {'S1': 'SH'}, 'S1')
    o4 = _tet(3, 1.60)
    mol['MPO'] = ([('P1', 'P', (0, 0, 0)), ('O1', 'O', _tet(0, 1.50)), ('O2', 'O', _tet(1, 1.50)), ('O3', 'O', _tet(2, 1.50)),
                   ('O4', 'O', o4), ('C1', 'C', _addv(o4, tuple(1.43 * c / math.sqrt(3) for c in (-1, 1, 1))))], {'O1': 'OP', 'O2': 'OP', 'O3': 'OP', 'O4': 'O3'}, 'O1')
    mol['CFM'] = ([('C1', 'C', (0, 0, 0)), ('F1', 'F', _tet(0, 1.38)), ('C2', 'C', _tet(1, 1.53))], {'F1': 'F'}, 'F1')
    mol['CCL'] = ([('C1', 'C', (0, 0, 0)), ('CL1', 'Cl', _tet(0, 1.77)), ('C2', 'C', _tet(1, 1.53))], {'CL1': 'Cl'}, 'CL1')
    mol['ACT'] = ([('C1', 'C', (0, 0, 0)), ('O1', 'O', _pol(1.25, 210)), ('O2', 'O', _pol(1.25, 330)),
                   ('C2', 'C', _pol(1.52, 90))], {'C1': 'OCO'}, 'O1')
    mol['MOH'] = ([('O1', 'O', (0, 0, 0)), ('C1', 'C', _tet(0, 1.43))], {'O1': 'OH'}, 'O1')
    mol['DME'] = ([('O1', 'O', (0, 0, 0)), ('C1', 'C', _tet(0, 1.43)), ('C2', 'C', _tet(1, 1.43))], {'O1': 'O3'}, 'O1')
    mol['ACO'] = ([('C1', 'C', (0, 0, 0)), ('O1', 'O', _pol(1.22, 270)), ('C2', 'C', _pol(1.51, 30)),
                   ('C3', 'C', _pol(1.51, 150))], {'O1': 'O2'}, 'O1')
    n1 = _pol(1.33, 330)
    mol['NMA'] = ([('C1', 'C', (0, 0, 0)), ('O1', 'O', _pol(1.23, 210)), ('C2', 'C', _pol(1.52, 90)), ('N1', 'N', n1),
                   ('C3', 'C', _addv(n1, _pol(1.45, 30)))], {'N1': 'NAM', 'O1': 'O2'}, 'N1')
    ring = [('C%d' % (i + 1), 'C', _pol(1.39, 60 * i)) for i in range(6)]
    mol['ANL'] = (ring + [('N7', 'N', _pol(1.39 + 1.40, 0))], {'N7': 'NP1'}, 'N7')
    # terminal sp atoms bound to another element (hydrogen cyanide, methyl isocyanide)
    mol['HCN'] = ([('C1', 'C', (0, 0, 0)), ('N1', 'N', (1.16, 0, 0))], {'N1': 'N1'}, 'N1')
    mol['MIC'] = ([('C1', 'C', (0, 0, 0)), ('N1', 'N', (1.17, 0, 0)), ('C2', 'C', (1.17 + 1.43, 0, 0))], {}, 'C1')
    # quaternary ammonium: four heavy neighbours, no amine group type
    mol['QMA'] = ([('N1', 'N', (0, 0, 0))] + [('C%d' % (i + 1), 'C', _tet(i, 1.50)) for i in range(4)], {}, 'C1')
    # aryl halides: the free position of the substituted ring carbon is exactly where the halogen sits
    mol['CLB'] = (ring + [('CL7', 'Cl', _pol(1.39 + 1.74, 0))], {'CL7': 'Cl'}, 'CL7')
    mol['BRB'] = (ring + [('BR7', 'Br', _pol(1.39 + 1.90, 0)), ('CL8', 'Cl', _pol(1.39 + 1.74, 180))], {'CL8': 'Cl'}, 'CL8')
    return mol


TEMPLATES = _templates()
# ligand group type -> (model pKa or None, charge) as the statement's "configured for their type";
# typed in from propka.cfg by hand (the check also reads the real Parameters and compares both ways)
LIGAND_TYPES = {'CG': (11.5, 1), 'C2N': (11.5, 1), 'N30': (10.0, 1), 'N31': (10.0, 1), 'N32': (10.0, 1),
                'N33': (10.0, 1), 'NAR': (5.0, 1), 'OCO': (4.5, -1), 'SH': (10.0, -1), 'OP': (6.0, -1),
                'N1': (None, 0), 'F': (None, 0), 'Cl': (None, 0), 'OH': (None, 0), 'O3': (None, 0), 'O2': (None, 0),
                'NAM': (None, 0), 'NP1': (None, 0)}
IONS = {'1P': 1, '2P': 2, '1N': -1, '2N': -2, 'MG': 2, 'CA': 2, 'ZN': 2, 'NA': 1, 'CL': -1, 'MN': 2, 'K': 1, 'CD': 2,
        'FE': 3, 'SR': 2, 'CU': 2, 'IOD': -1, 'HG': 2, 'BR': -1, 'CO': 2, 'NI': 2, 'FE2': 2}


def ligand(name, chain='L', resnum=1, origin=(10000, 10000, 10000)):
    atoms, _, _ = TEMPLATES[name]
    items = []
    for i, (n, e, p) in enumerate(atoms, 1):
        items.append(A('HETATM', '%5d' % i, name4(n, e), ' ', name, chain, resnum, ' ',
                       int(round(p[0] * 1000)) + origin[0], int(round(p[1] * 1000)) + origin[1],
                       int(round(p[2] * 1000)) + origin[2], '  1.00', '  0.00', '          %2s' % e.upper()))
    return S(items)


def ion(resname, chain='M', resnum=1, at=(0, 0, 0)):
    el = {'IOD': 'I', 'FE2': 'FE', '1P': 'X', '2P': 'X', '1N': 'X', '2N': 'X'}.get(resname, resname)
    nm = name4(el if resname not in ('1P', '2P', '1N', '2N') else resname, el.capitalize() if len(el) == 2 else el)
    return S([A('HETATM', '    1', nm, ' ', '%3s' % resname, chain, resnum, ' ', at[0], at[1], at[2],
                '  1.00', '  0.00', '          %2s' % el[:2])])


# ------------------------------------------------------------------ geometry helpers (floats, rounded back to the grid)
def _sub(a, b):
    return [x - y for x, y in zip(a, b)]


def _add(a, b):
    return [x + y for x, y in zip(a, b)]


def _mul(a, s):
    return [x * s for x in a]


def _norm(a):
    return math.sqrt(sum(x * x for x in a))


def _dot(a, b):
    return sum(x * y for x, y in zip(a, b))


def _cross(a, b):
    return [a[1] * b[2] - a[2] * b[1], a[2] * b[0] - a[0] * b[2], a[0] * b[1] - a[1] * b[0]]


def rotmat(a, b):
    """Rotation taking direction a to direction b (Rodrigues)."""
    a = _mul(a, 1 / _norm(a))
    b = _mul(b, 1 / _norm(b))
    v = _cross(a, b)
    c = _dot(a, b)
    s = _norm(v)
    if s < 1e-9:
        if c > 0:
            return [[1, 0, 0], [0, 1, 0], [0, 0, 1]]
        # 180 degrees about any axis orthogonal to a
        o = _cross(a, [1, 0, 0]) if abs(a[0]) < 0.9 else _cross(a, [0, 1, 0])
        o = _mul(o, 1 / _norm(o))
        return [[2 * o[i] * o[j] - (1 if i == j else 0) for j in range(3)] for i in range(3)]
    k = _mul(v, 1 / s)
    K = [[0, -k[2], k[1]], [k[2], 0, -k[0]], [-k[1], k[0], 0]]
    return [[(1 if i == j else 0) + s * K[i][j] + (1 - c) * sum(K[i][m] * K[m][j] for m in range(3))
             for j in range(3)] for i in range(3)]


def axis_rot(axis, deg):
    a = _mul(axis, 1 / _norm(axis))
    th = math.radians(deg)
    c, s = math.cos(th), math.sin(th)
    K = [[0, -a[2], a[1]], [a[2], 0, -a[0]], [-a[1], a[0], 0]]
    return [[(1 if i == j else 0) * c + s * K[i][j] + (1 - c) * a[i] * a[j] for j in range(3)] for i in range(3)]


def centroid(atoms):
    n = len(atoms)
    return [sum(a.xyz[i] for a in atoms) / n for i in range(3)]


def atom_named(s, name, resname=None):
    for a in s.atoms:
        if a.name == name and (resname is None or a.resname.strip() == resname):
            return a
    raise KeyError(name)


def dock_at(sb, b_atom, point, direction, spin=0.0):
    """Rigidly move sb so that b_atom sits at `point` (A) and the body of sb points along `direction`."""
    u = _mul(direction, 1 / _norm(direction))
    pb = list(b_atom.xyz)
    w = _sub(centroid(sb.atoms), pb)
    if _norm(w) < 1e-6:
        w = [1.0, 0.0, 0.0]
    R = rotmat(w, u)
    if spin:
        R2 = axis_rot(u, spin)
        R = [[sum(R2[i][m] * R[m][j] for m in range(3)) for j in range(3)] for i in range(3)]
    out = sb.copy()
    for a in out.atoms:
        q = _sub(list(a.xyz), pb)
        q = [sum(R[i][j] * q[j] for j in range(3)) for i in range(3)]
        p = _add(point, q)
        a.x, a.y, a.z = (int(round(v * 1000)) for v in p)
    return out


def outward(sa, a_atom):
    u = _sub(list(a_atom.xyz), centroid(sa.atoms))
    if _norm(u) < 1e-6:
        u = [1.0, 0.0, 0.0]
    return _mul(u, 1 / _norm(u))


def dock(sa, a_atom, sb, b_atom, d, spin=0.0):
    """Rigidly move structure sb so that b_atom sits at distance d from a_atom, outward from sa's
    centroid, with sb pointing away; `spin` degrees about the contact axis give other orientations."""
    u = outward(sa, a_atom)
    return dock_at(sb, b_atom, _add(list(a_atom.xyz), _mul(u, d)), u, spin)


def min_interdist(sa, sb, skip=()):
    best = 1e9
    for a in sa.atoms:
        for b in sb.atoms:
            if (a, b) in skip:
                continue
            dd = math.sqrt(((a.x - b.x) ** 2 + (a.y - b.y) ** 2 + (a.z - b.z) ** 2)) / 1000.0
            if dd < best:
                best = dd
    return best


def shell(center_mA, keep_clear, rmin, rmax, spacing=3.0, clear=4.0, chain='Z', resname='ALA', name=' CB '):
    """Lattice of inert carbon atoms (one atom per residue) in a spherical shell: burial without chemistry."""
    out = []
    n = int(rmax / spacing) + 1
    k = 0
    sp = int(round(spacing * 1000))
    pts = [(a.x, a.y, a.z) for a in keep_clear]
    c2 = (clear * 1000) ** 2
    for i, j, m in itertools.product(range(-n, n + 1), repeat=3):
        p = (center_mA[0] + i * sp, center_mA[1] + j * sp, center_mA[2] + m * sp)
        r = math.sqrt((i * sp) ** 2 + (j * sp) ** 2 + (m * sp) ** 2) / 1000.0
        if r < rmin or r > rmax:
            continue
        if any((p[0] - q[0]) ** 2 + (p[1] - q[1]) ** 2 + (p[2] - q[2]) ** 2 < c2 for q in pts):
            continue
        k += 1
        if k > 9999:
            break
        out.append(A('ATOM  ', '%5d' % (k % 100000), name, ' ', resname, chain, k, ' ', p[0], p[1], p[2],
                     '  1.00', '  0.00', '           C'))
    return S(out)


BURIAL = {'exposed': None, 'mid': (6.0, 13.5, 3.0), 'deep': (5.0, 14.8, 2.6)}


def with_burial(parts, level, ter=True):
    """Join parts (list of S) with TER records and add a burial shell of the given level."""
    items = []
    for p in parts:
        items += p.items
        if ter:
            items.append('TER\n')
    s = S(items)
    if BURIAL[level]:
        rmin, rmax, spacing = BURIAL[level]
        at = s.atoms
        c = [int(round(sum(getattr(a, ax) for a in at) / len(at))) for ax in 'xyz']
        sh = shell(c, at, rmin, rmax, spacing)
        s = S(s.items + sh.items + (['TER\n'] if ter else []))
    return s


# ------------------------------------------------------------------ kinds (S2 / S3 alphabets)
# protein kinds: (protein, chain, resname) -> looked up in the library; interaction atom per kind
PROTEIN_KINDS = collections.OrderedDict([
    ('ASP', 'OD1'), ('GLU', 'OE1'), ('HIS', 'NE2'), ('CYS', 'SG'), ('TYR', 'OH'), ('LYS', 'NZ'), ('ARG', 'NH1'),
    ('SER', 'OG'), ('THR', 'OG1'), ('ASN', 'ND2'), ('GLN', 'NE2'), ('TRP', 'NE1'),
    ('ASNO', 'OD1'), ('GLNO', 'OE1'),      # the amide approached through its oxygen (acceptor side)
])
KIND_RESNAME = {'ASNO': 'ASN', 'GLNO': 'GLN'}
SOURCE = ('3SGB', 'E')   # chain E of 3SGB has every residue type except CYS-free... see kind_fragment


@functools.lru_cache(maxsize=None)
def kind_fragment(kind, nth=0):
    """A capped fragment for a protein kind, or a terminus fragment for 'N+' / 'C-'."""
    lib = library()
    if kind in ('N+', 'C-'):
        res = lib.protein_residues('3SGB', 'I')
        if kind == 'N+':
            # first two residues of a chain: an ALA-like N-terminus (side chain cut to CB)
            i = lib.find('3SGB', 'I', 'LEU', 0)
            items = [a.clone() for a in res[i][1] if a.name in ('N', 'CA', 'C', 'O', 'CB')]
            items += [a.clone() for a in res[i + 1][1] if a.name in ('N', 'CA')]
            s = S(items)
            for a in s.atoms:
                if a.reskey == res[i][0][:3]:
                    a.resname = 'ALA'
            return s
        i = len(res) - 1   # CYS 56 of chain I carries OXT; use its backbone as a GLY C-terminus
        items = [a.clone() for a in res[i - 1][1] if a.name in ('CA', 'C', 'O')]
        items += [a.clone() for a in res[i][1] if a.name in ('N', 'CA', 'C', 'O', 'OXT')]
        s = S(items)
        for a in s.atoms:
            if a.reskey == res[i][0][:3]:
                a.resname = 'GLY'
        return s
    for key, chain in (('3SGB', 'E'), ('3SGB', 'I'), ('1HPX', 'A'), ('4DFR', 'A'), ('1FTJ', 'A')):
        try:
            i = lib.find(key, chain, KIND_RESNAME.get(kind, kind), nth)
        except IndexError:
            continue
        return lib.fragment(key, chain, i)
    raise KeyError(kind)


def kind_struct(kind, chain, resnum0=1):
    """Fresh relabelled copy of a kind's fragment: protein kind, terminus, ligand template or ion."""
    if kind in PROTEIN_KINDS or kind in ('N+', 'C-'):
        s = kind_fragment(kind).copy()
        keys = list(s.residues().keys())
        m = {k[:3]: resnum0 + i for i, k in enumerate(keys)}
        for a in s.atoms:
            a.resnum = m[a.reskey]
            a.chain = chain
            a.icode = ' '
        # put the fragment near the origin
        c = centroid(s.atoms)
        s.translate([-int(round(v * 1000)) for v in c])
        return s.renumber_serials()
    if kind in TEMPLATES:
        return ligand(kind, chain, resnum0, origin=(0, 0, 0))
    if kind in IONS:
        return ion(kind, chain, resnum0)
    raise KeyError(kind)


def kind_atom(kind, s):
    """The atom of a kind through which pairs are docked."""
    if kind in PROTEIN_KINDS:
        return atom_named(s, PROTEIN_KINDS[kind], KIND_RESNAME.get(kind, kind))
    if kind == 'N+':
        return [a for a in s.atoms if a.name == 'N'][0]
    if kind == 'C-':
        return atom_named(s, 'OXT')
    if kind in TEMPLATES:
        return atom_named(s, TEMPLATES[kind][2])
    return s.atoms[0]


def pair(kind_a, kind_b, d, spin=0.0, level='exposed', offset=(0, 0, 0)):
    """S2 contact pair: kind_b docked onto kind_a at distance d (A)."""
    sa = kind_struct(kind_a, 'A', 1)
    sb = kind_struct(kind_b, 'B', 11)
    sb = dock(sa, kind_atom(kind_a, sa), sb, kind_atom(kind_b, sb), d, spin)
    s = with_burial([sa, sb], level)
    s.translate(offset)
    return s.renumber_serials()


def cluster(kinds, layout='line', d=3.0, level='exposed', offset=(0, 0, 0)):
    """S3 cluster.  'star': kinds[1:] all docked onto kinds[0]'s interaction atom from directions 75 degrees apart.
    'line': part k+1 docked onto part k's interaction atom, approaching at 95 degrees from the previous contact."""
    parts = [kind_struct(kinds[0], 'A', 1)]
    chains = 'BCDEFGH'
    anchor = parts[0]
    a_at = kind_atom(kinds[0], anchor)
    u = outward(anchor, a_at)
    n = _cross(u, [0.3, 0.5, 0.8])
    prev_at, prev_u = a_at, u
    for i, k in enumerate(kinds[1:]):
        sb = kind_struct(k, chains[i], 11 + 10 * i)
        b_at = kind_atom(k, sb)
        if layout == 'star':
            ang = 75.0 * ((i + 1) // 2) * (1 if i % 2 else -1)
            R = axis_rot(n, ang)
            w = [sum(R[r][c] * u[c] for c in range(3)) for r in range(3)]
            sb = dock_at(sb, b_at, _add(list(a_at.xyz), _mul(w, d)), w, spin=30.0 * i)
        else:
            if i == 0:
                w = prev_u
            else:
                back = _mul(prev_u, -1.0)
                R = axis_rot(n, 95.0 if i % 2 else -95.0)
                w = [sum(R[r][c] * back[c] for c in range(3)) for r in range(3)]
            sb = dock_at(sb, b_at, _add(list(prev_at.xyz), _mul(w, d)), w, spin=40.0 * i)
            prev_at, prev_u = kind_atom(k, sb), w
        parts.append(sb)
    s = with_burial(parts, level)
    s.translate(offset)
    return s.renumber_serials()


def bridge_points(frag, atom_a, d_a, atom_b, d_b, clear=2.7, step=0.25, limit=3):
    """Lattice points within d_a of atom_a AND within d_b of atom_b that keep `clear` A from every atom of frag."""
    pa, pb = atom_a.xyz, atom_b.xyz
    pts = []
    n = int((max(d_a, d_b) + 1.0) / step)
    heavy = [a.xyz for a in frag.atoms]
    for i, j, k in itertools.product(range(-n, n + 1), repeat=3):
        p = (pa[0] + i * step, pa[1] + j * step, pa[2] + k * step)
        if sum((p[m] - pa[m]) ** 2 for m in range(3)) > d_a ** 2 or sum((p[m] - pb[m]) ** 2 for m in range(3)) > d_b ** 2:
            continue
        if any(sum((p[m] - h[m]) ** 2 for m in range(3)) < clear ** 2 for h in heavy):
            continue
        pts.append(p)
    pts.sort(key=lambda p: sum((p[m] - pa[m]) ** 2 + (p[m] - pb[m]) ** 2 for m in range(3)))
    return pts[:limit]


def backbone_bridge(lig_kind, res_kind='ALA', which=0, level='exposed', offset=(0, 0, 0)):
    """A ligand whose interaction atom is within hydrogen-bond range of the amide N AND of the carbonyl O of one residue."""
    frag = kind_struct('SER' if res_kind == 'SER' else 'THR', 'A', 1) if res_kind != 'ALA' else kind_struct('SER', 'A', 1)
    keys = list(frag.residues().keys())
    mid = keys[1][:3]
    n_at = [a for a in frag.atoms if a.reskey == mid and a.name == 'N'][0]
    o_at = [a for a in frag.atoms if a.reskey == mid and a.name == 'O'][0]
    pts = bridge_points(frag, n_at, 3.3, o_at, 3.9)
    if len(pts) <= which:
        raise Skip('no-bridge-point')
    lig = kind_struct(lig_kind, 'B', 11)
    u = _sub(list(pts[which]), centroid(frag.atoms))
    lig = dock_at(lig, kind_atom(lig_kind, lig), list(pts[which]), u)
    s = with_burial([frag, lig], level)
    s.translate(offset)
    return s.renumber_serials()


class Skip(Exception):
    """Raised by generators for inputs that are outside a scope (clash, tie); counted, never judged."""


def interpart_clash(s, limit=2.05):
    """Do two atoms of different chains come closer than a covalent bond (S-S contacts excepted)?"""
    at = [a for a in s.atoms if a.chain != 'Z']
    lim2 = int(limit * 1000) ** 2
    for i in range(len(at)):
        a = at[i]
        for j in range(i + 1, len(at)):
            b = at[j]
            if a.chain == b.chain:
                continue
            if (a.x - b.x) ** 2 + (a.y - b.y) ** 2 + (a.z - b.z) ** 2 < lim2:
                if a.element == 'S' and b.element == 'S':
                    continue
                return True
    return False


def cutoff_ties(s, cutoffs=(20.0, 15.0, 10.0, 6.0, 5.0, 4.5, 4.0, 3.85, 3.65, 3.5, 3.0, 2.85, 2.5, 2.0, 1.7, 1.5),
                eps=1e-6, centers=None):
    """Tie guard: is any atom-atom distance within eps of a model cut-off?  (computed from the input alone)"""
    at = s.atoms if isinstance(s, S) else s
    cs = [int(round(c * 1000)) ** 2 for c in cutoffs]
    for i in range(len(at)):
        a = at[i]
        for j in range(i + 1, len(at)):
            b = at[j]
            d2 = (a.x - b.x) ** 2 + (a.y - b.y) ** 2 + (a.z - b.z) ** 2
            if d2 in cs:
                return True
    return False

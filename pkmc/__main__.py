import sys
from .core import main
sys.exit(main())

"""C05 - parts of a structure beyond interaction range do not influence each other."""
import math

from ..core import Acc, Viol, jhash
from .. import pk, gen, cmp, corpus, profiles as pf

ID = 'C05'
HORIZON_S = 1800   # one case = one input under all its transformations
LEVEL = 'exploration'
LEVEL_TEXT = ('Every ordered pair (A, B) from a library of parts (docked pairs, coupled/iterative clusters at three burial levels, '
              'ligands, ions, a protein chain; A = B included) is combined into one file at every separation of a list that '
              'straddles the interaction range and the 1000 A sentinel (26 A ... 9000 A), along each coordinate axis and the body '
              'diagonal, in both file orders; the per-group records of the union restricted to each part must equal the records '
              'of that part processed alone at the same coordinates, the charge and folding profiles must add up, and no '
              'separation may raise an error.')
LEVEL_NOTE = 'Differential oracle between real executions; tolerance 1e-9. Parts are limited to the library; three-part unions are not enumerated.'
TECHNIQUE = 'exhaustive enumeration of (part, part, separation, axis, order) over a bounded library; differential comparison of real executions'
ASSUMPTIONS = ['part B is given chain ids of its own (lower case) and joined with TER: identical labels in both parts would be an invalid file']

SEPS_Q = (26.0, 100.0, 1001.0, 9000.0)
SEPS_T = (26.0, 30.0, 100.0, 999.0, 1001.0, 1500.0, 5000.0, 9000.0)
AXES = {'x': (1, 0, 0), 'y': (0, 1, 0), 'z': (0, 0, 1), 'd': (1, 1, 1)}


def parts(tier):
    p = [corpus.pair_desc('ASP', 'LYS', 2.8, 'mid'), corpus.pair_desc('HIS', 'GLU', 3.0, 'deep'),
         corpus.cluster_desc(('ASP', 'GLU', 'LYS'), 'line', 3.0, 'deep'), corpus.cluster_desc(('GLU', 'GLU', 'HIS'), 'star', 3.0, 'mid'),
         corpus.pair_desc('ACT', 'MAM', 2.9, 'exposed'), corpus.pair_desc('CA', 'GLU', 2.6, 'mid'),
         corpus.pair_desc('CYS', 'CYS', 2.03, 'exposed'), corpus.pair_desc('N+', 'C-', 3.0, 'exposed'),
         corpus.window_desc('3SGB', 'I', 0, 12), corpus.cluster_desc(('TYR', 'CYS', 'HIS'), 'line', 3.0, 'deep'),
         # iterative clusters that do not converge within the 10 iterations / converge slowly (found by a sweep of S3)
         corpus.cluster_desc(('GLU', 'GLU', 'GLU'), 'line', 3.0, 'mid'), corpus.cluster_desc(('ASP', 'ASP', 'GLU'), 'line', 3.0, 'deep'),
         corpus.cluster_desc(('GLU', 'GLU', 'PYR'), 'line', 3.0, 'mid'),
         # incomplete residues: groups whose interaction atoms are missing must not fall back on absolute positions
         corpus.window_desc('1HPX', 'A', 20, 15, strip='tips'),
         # a chain followed (after its TER) by its own hetero groups, as deposited files are laid out
         corpus.pair_desc('GLU', 'CA', 2.6, 'exposed'), corpus.pair_desc('HIS', 'ACT', 2.8, 'exposed')]
    if tier == 'thorough':
        p += [corpus.chain_desc('3SGB', 'I'), corpus.pair_desc('PYR', 'GLU', 2.8, 'deep'), corpus.pair_desc('MGU', 'ASP', 2.8, 'mid'),
              corpus.pair_desc('ZN', 'HIS', 2.2, 'mid'), corpus.pair_desc('MPO', 'ARG', 3.0, 'exposed'),
              corpus.cluster_desc(('ASP', 'ASP', 'ASP'), 'star', 3.0, 'deep'), corpus.cluster_desc(('LYS', 'LYS', 'ARG'), 'line', 3.0, 'deep'),
              corpus.cluster_desc(('CYS', 'CYS', 'CYS'), 'line', 3.0, 'exposed'), corpus.cluster_desc(('HIS', 'HIS', 'ACT'), 'line', 3.0, 'deep'),
              corpus.cluster_desc(('GLU', 'ACT', 'ACT'), 'star', 3.0, 'exposed'), corpus.cluster_desc(('ASP', 'C-', 'PYR'), 'star', 3.0, 'deep'), corpus.cluster_desc(('HIS', 'HIS', 'ASP'), 'star', 3.0, 'deep'),
              corpus.pair_desc('MSH', 'HIS', 3.2, 'exposed'), corpus.pair_desc('TYR', 'ARG', 3.0, 'mid'),
              corpus.window_desc('1HPX', 'A', 20, 15), corpus.cutout_desc('4DFR', 'A', 26, 9.0), corpus.pair_desc('CL', 'LYS', 3.0, 'mid'),
              corpus.cluster_desc(('GLU', 'HIS', 'CYS'), 'line', 3.0, 'mid'), corpus.cluster_desc(('ASP', 'TYR', 'LYS'), 'star', 3.0, 'deep')]
    return p


def plan(tier, seed):
    ps = parts(tier)
    seps = SEPS_Q if tier == 'quick' else SEPS_T
    axes = ('x', 'd') if tier == 'quick' else ('x', 'y', 'z', 'd')
    shards = []
    for i in range(len(ps)):
        for j in range(len(ps)):
            shards.append([dict(a=i, b=j, sep=s, axis=ax, order=o) for s in seps for ax in axes for o in (0, 1)])
    # plain concatenation of two files (no TER between them)
    hetero_last = [i for i, p_ in enumerate(ps) if p_['t'] == 'pair' and p_.get('level') == 'exposed' and (p_['b'] in gen.IONS or p_['b'] in gen.TEMPLATES)]
    prot = [i for i, p_ in enumerate(ps) if p_['t'] in ('window', 'chain')]
    # (only with the hetero-terminated part first: after 'chain, TER, hetero groups' the chain-start marker is still pending, whereas
    # two protein parts without TER or OXT between them are one chain by definition)
    shards += [[dict(a=i, b=j, sep=s_, axis='x', order=0, join='none') for s_ in (26.0, 1001.0)] for i in hetero_last for j in prot + hetero_last]
    # the copy keeps the chain ids of the original (only the residue numbers differ): ligand copies in one chain etc.
    same = [i for i, p_ in enumerate(ps) if p_['t'] in ('pair', 'cluster')]
    shards += [[dict(a=i, b=i, sep=s_, axis='x', order=o, same=True) for s_ in (26.0, 1500.0) for o in (0, 1)] for i in same]
    shards += [[dict(a=i, b=j, sep=80.0, axis='d', order=0, same=True)] for i in same[:6] for j in same[:6] if i != j]
    # parts with covalently coupled systems under the parameter toggles that act on them (common charge centre, shared determinants)
    coupled = [corpus.window_desc('3SGB', 'I', 0, 12), corpus.window_desc('1HPX', 'A', 66, 8), dict(t='ligand', name='MPO'),
               corpus.cutout_desc('4DFR', 'A', 26, 9.0)]
    for i in range(len(coupled)):
        for j in range(len(coupled)):
            shards.append([dict(a=i, b=j, sep=s_, axis='x', order=o, cfg=list(bits), lib='coupled')
                           for bits in ((1, 0, 1), (1, 1, 1), (0, 1, 1)) for s_ in (26.0, 1001.0) for o in (0, 1)])
    # whole reference structures next to a large partner (several copies of another structure): a step that looks at 'all groups
    # of the conformation' at once (convergence, normalisation) would couple the two
    bigpairs = [(0, 1)] if tier == 'quick' else [(0, 1), (0, 4), (2, 1), (3, 1), (5, 1), (0, 5), (2, 3)]
    shards += [[dict(a=i, b=j, sep=100.0, axis='x', order=o, lib='big')] for i, j in bigpairs for o in ((0,) if tier == 'quick' else (0, 1))]
    # parts with several conformations: alternate locations labelled with letters in one part and with digits (or not at all) in the
    # other; atom serial numbers of the two parts distinct or both starting at 1
    for i in range(len(MULTI)):
        for j in range(len(MULTI)):
            if MULTI[i]['t'] == 'c08' or MULTI[j]['t'] == 'c08':
                shards.append([dict(a=i, b=j, sep=80.0, axis='x', order=o, lib='multi', serials=sr) for o in (0, 1) for sr in ('distinct', 'overlap')])
    # hydrogens supplied in the file (off their ideal positions) and kept, next to a part with several conformations: the
    # single-conformation part must come out the same in every conformation of the union and in its average
    for i in range(len(MULTI)):
        for j in range(len(MULTI)):
            if (MULTI[i]['t'] == 'c08') != (MULTI[j]['t'] == 'c08'):
                shards.append([dict(a=i, b=j, sep=80.0, axis='x', order=o, lib='multi', serials='distinct', keep=True) for o in (0, 1)])
    return dict(shards=shards, exhaustive=True,
                rule=('parts: %d library entries; unions of every ordered pair (A=B included) at nearest-atom separations %s A along '
                      'axes %s, B first or second in the file, joined with TER and (exposed pairs, windows) by plain concatenation; whole reference files next to 2-3 copies of another one (100 A); multi-conformation parts (letter / digit / blank alt-loc labels, distinct or overlapping serials). a single-conformation part with its hydrogens supplied off the ideal positions next to a multi-conformation part under --keep-protons (the single-conformation part is compared in every conformation of the union and in the average). non-trivial = distinct unions in which both parts carry at least one '
                      'group with a determinant or a non-zero desolvation term') % (len(ps), list(seps), list(axes)),
                bounds=dict(parts=len(ps), separations=list(seps), axes=list(axes)),
                samples=[dict(a=ps[0], b=ps[2], sep=1001.0, axis='x', order=0)])


def lower_chains(s):
    for a in s.atoms:
        a.chain = a.chain.lower() if a.chain.isalpha() else {' ': 'q'}.get(a.chain, a.chain)
    return s


def place(sa, sb, sep, axis):
    """Translate sb so that its nearest atom is at least `sep` A from sa along the axis."""
    ax = AXES[axis]
    ea, eb = sa.extent(), sb.extent()
    if axis == 'd':
        ca = [sum(e) / 2 for e in ea]
        cb = [sum(e) / 2 for e in eb]
        ra = max(math.sqrt(sum((getattr(a, c) - ca[i]) ** 2 for i, c in enumerate('xyz'))) for a in sa.atoms)
        rb = max(math.sqrt(sum((getattr(a, c) - cb[i]) ** 2 for i, c in enumerate('xyz'))) for a in sb.atoms)
        dist = sep * 1000 + ra + rb
        t = [int(round(ca[i] + dist / math.sqrt(3) - cb[i])) for i in range(3)]
    else:
        k = ax.index(1)
        t = [0, 0, 0]
        t[k] = int(round(ea[k][1] + sep * 1000 - eb[k][0]))
        for m in range(3):
            if m != k:
                t[m] = int(round(sum(ea[m]) / 2 - sum(eb[m]) / 2))
    return sb.translate(t)


_ALONE = {}


def alone(key, s, opts=()):
    if key not in _ALONE:
        m = pk.run(gen.to_text(s), opts)
        _ALONE[key] = (pk.record(m), m.get_charge_profile(grid=(0., 14., 1.)),
                       m.get_folding_profile(grid=(0., 14., 1.))[0])
        if len(_ALONE) > 400:
            _ALONE.clear()
    return _ALONE[key]


def interesting(rec):
    for g in rec['confs']['AVR']['groups']:
        if any(g['dets'][t] for t in g['dets']) or g['energy_volume']:
            return True
    return False


COUPLED = None


BIG = [dict(t='whole', key='4DFR', copies=1), dict(t='whole', key='1FTJ', copies=2), dict(t='whole', key='1HPX', copies=1),
       dict(t='whole', key='3SGB', copies=1), dict(t='whole', key='1FTJ', copies=3), dict(t='whole', key='1FTJ', copies=1)]


def whole_part(d, seed):
    """A complete reference file (all its conformations, ligands, waters), optionally as several copies 100 A apart with chain ids
    of their own: the large, already converged partner that a convergence test over 'all groups' would be diluted by."""
    lib = gen.library()
    out = None
    for k in range(d['copies']):
        s = gen.parse_text(lib.text(d['key']))
        s = gen.S([i for i in s.items if not isinstance(i, str) or i.startswith('TER')])
        if d['copies'] > 1:
            m = {}
            for a in s.atoms:
                if a.chain not in m:
                    m[a.chain] = 'PQRSTUVWXY'[(len(m) + 3 * k) % 10]
                a.chain = m[a.chain]
        if out is None:
            out = s
        else:
            s = place(out, s, 100.0, 'y')
            items = list(out.items)
            if not (isinstance(items[-1], str) and items[-1].startswith('TER')):
                items.append('TER\n')
            out = gen.S(items + s.items)
    return out.translate(gen.seed_offset(seed))


MULTI = [dict(t='c08', d=dict(kind='alt', layout=[('A', 'ASP'), ('B', 'ASPs')])), dict(t='c08', d=dict(kind='alt', layout=[('1', 'ASP'), ('2', 'ASPs')])),
         dict(t='c08', d=dict(kind='alt', layout=[('A', 'ASP'), ('B', 'ALA'), ('C', 'ASPs')], lys=[('B', 'LYSs'), ('C', 'LYS')])),
         dict(t='c08', d=dict(kind='alt', layout=[(' ', 'ASP'), ('2', 'ASPs')])), corpus.pair_desc('HIS', 'GLU', 3.0, 'mid'),
         corpus.cluster_desc(('GLU', 'GLU', 'HIS'), 'star', 3.0, 'mid')]


def build_part(d, seed):
    if d['t'] == 'c08':
        from . import c08
        return c08.build(d['d'], seed)
    if d['t'] == 'whole':
        return whole_part(d, seed)
    if d['t'] == 'ligand':
        return gen.ligand(d['name'], 'L', 1).translate(gen.seed_offset(seed))
    return corpus.build(d, seed)


def run_case(case, ctx, acc):
    ps = parts(ctx.tier)
    if case.get('lib') == 'coupled':
        ps = [corpus.window_desc('3SGB', 'I', 0, 12), corpus.window_desc('1HPX', 'A', 66, 8), dict(t='ligand', name='MPO'),
              corpus.cutout_desc('4DFR', 'A', 26, 9.0)]
    if case.get('lib') == 'big':
        ps = BIG
    if case.get('lib') == 'multi':
        ps = MULTI
    opts = ()
    if case.get('cfg'):
        import os
        from . import c02
        bits = tuple(case['cfg'])
        path = os.path.abspath('c05_%d%d%d.cfg' % bits)
        if not os.path.exists(path):
            with open(path, 'w') as fh:
                fh.write(c02.cfg_variants()[bits])
        opts = ('-p', path)
    da, db = ps[case['a']], ps[case['b']]
    sa = build_part(da, ctx.seed).renumber_serials()
    sb = build_part(db, ctx.seed)
    if case.get('same'):
        for a in sb.atoms:
            a.resnum += 5000
    else:
        sb = lower_chains(sb)
    sb = place(sa, sb, case['sep'], case['axis']).renumber_serials(1 if case.get('serials') == 'overlap' else 5000)
    for a in sa.atoms + sb.atoms:
        if not (-999999 <= a.x <= 9999999 and -999999 <= a.y <= 9999999 and -999999 <= a.z <= 9999999):
            raise gen.Skip('outside-coordinate-field')
    if case.get('keep'):
        from . import c07

        def with_hydrogens(s_):
            if any(a.alt != ' ' for a in s_.atoms) or any(isinstance(it, str) and it.startswith('MODEL') for it in s_.items):
                return s_
            fed = c07.hydrogens_fed_back(s_, pk.run(gen.to_text(s_)))
            if fed is None:
                raise gen.Skip('hydrogens-would-clash')
            out = []
            for it in fed:
                if not isinstance(it, str) and it.element == 'H':
                    it = it.clone()
                    it.x, it.y, it.z = it.x + 120, it.y - 80, it.z + 100
                out.append(it)
            return gen.S(out)
        sa, sb = with_hydrogens(sa), with_hydrogens(sb)
        sa.renumber_serials()
        sb.renumber_serials(5000)
        opts += ('--keep-protons',)
    tag = (case.get('lib'), tuple(case.get('cfg') or ()), bool(case.get('same')), bool(case.get('keep')))
    ra, qa, fa = alone(('A', case['a']) + tag, sa, opts)
    rb, qb, fb = alone(('B', case['b'], case['sep'], case['axis'], case['a']) + tag, sb, opts)
    first, second = (sa, sb) if case['order'] == 0 else (sb, sa)
    items = list(first.items)
    if case.get('join') == 'none':      # plain concatenation: no TER between the last record of one part and the first of the other
        while items and isinstance(items[-1], str):
            items.pop()
    elif not (items and isinstance(items[-1], str) and items[-1].startswith('TER')):
        items.append('TER\n')
    items += second.items
    text = gen.to_text(items)
    inputs = dict(pdb=text)
    try:
        mu = pk.run(text, opts)
    except Exception as exc:
        from ..core import exc_key
        span = 'span>1000A' if case['sep'] > 990 else 'span<1000A'
        acc.n += 1
        acc.viols.append(Viol(case, 'locality', 'union-raises/%s/%s' % (exc_key(exc), span), '%s: %s' % (type(exc).__name__, str(exc)[:100]),
                              inputs=inputs))
        return
    ru = pk.record(mu)
    nt = interesting(ra) and interesting(rb)
    acc.case(nontrivial_key=jhash(case) if nt else None, outcome='%s' % (case['sep'] > 990))
    v = []
    def resnum_of(key):
        num = key.split(':')[1]
        return int(num.rstrip('ABCDEFGHIJKLMNOPQRSTUVWXYZ'))
    for tag, rp in (('A', ra), ('B', rb)):
        chains = set(g['key'].split(':')[0] for c in rp['confs'].values() for g in c['groups'])
        if case.get('same'):
            inpart = (lambda g, tag=tag: (resnum_of(g['key']) >= 5000) == (tag == 'B'))
        else:
            inpart = (lambda g, chains=chains: g['key'].split(':')[0] in chains)
        # the number of conformations is a property of the whole file: a part with fewer alternate locations than the other one is
        # completed into the extra conformations, which changes the weights of its average by definition (C08); the average (and
        # the profiles, which are taken from it) is compared only when both have the same conformations
        from . import c08
        part_items = (sa if tag == 'A' else sb).items
        same_confs = c08.own_conformations(part_items)[0] == c08.own_conformations(items)[0]     # by the reference naming of C08
        if same_confs and rp['conformations'] != ru['conformations']:
            v.append(('part-changed-by-distant-part/conformations/%s' % ('span>1000A' if case['sep'] > 990 else 'span<1000A'),
                      'part %s alone has conformations %s, the union %s' % (tag, rp['conformations'], ru['conformations'])))
            break
        if not same_confs:
            acc.extra['unions_with_different_conformation_sets(average not compared)'] += 1
        if not same_confs and len(rp['conformations']) == 1:
            # a part with one conformation is completed into every conformation of the union: an exact copy each time, so every
            # conformation of the union (and the average) shows the part exactly as it is alone
            for name in ru['conformations'] + ['AVR']:
                part_groups = [g for g in ru['confs'][name]['groups'] if inpart(g)]
                d = cmp.diff_conf(rp['confs'][rp['conformations'][0]] if name != 'AVR' else rp['confs']['AVR'],
                                  dict(groups=part_groups, chains=[], nc_flag=False), tol=1e-9)
                if d:
                    v.append(('single-conformation-part-differs-in-completed-conformation/%s/%s' % (d[0][0], 'avr' if name == 'AVR' else 'conf'),
                              'part %s in %s: %s' % (tag, name, str(d[0])[:300])))
                    break
            continue
        for name in rp['conformations'] + (['AVR'] if same_confs else []):
            if name not in ru['confs']:
                v.append(('part-changed-by-distant-part/conformations/%s' % ('span>1000A' if case['sep'] > 990 else 'span<1000A'),
                          'part %s alone has conformation %s, the union has %s' % (tag, name, ru['conformations'])))
                break
            part_groups = [g for g in ru['confs'][name]['groups'] if inpart(g)]
            sub = dict(groups=part_groups, chains=[], nc_flag=False)
            d = cmp.diff_conf(rp['confs'][name], sub, tol=1e-9)
            if d:
                v.append(('part-changed-by-distant-part/%s/%s' % (d[0][0], 'span>1000A' if case['sep'] > 990 else 'span<1000A'),
                          'part %s in %s: %s' % (tag, name, str(d[0])[:300])))
                break
    qu = mu.get_charge_profile(grid=(0., 14., 1.))
    fu = mu.get_folding_profile(grid=(0., 14., 1.))[0]
    from . import c08 as _c08
    if not (_c08.own_conformations(sa.items)[0] == _c08.own_conformations(items)[0] == _c08.own_conformations(sb.items)[0]):
        qu, fu = [], []
    for i in range(len(qu)):
        if abs(qu[i][1] - qa[i][1] - qb[i][1]) > 1e-9 or abs(qu[i][2] - qa[i][2] - qb[i][2]) > 1e-9:
            v.append(('charge-profile-not-additive', 'pH %s: union %r parts %r + %r' % (qu[i][0], qu[i][1:], qa[i][1:], qb[i][1:])))
            break
    for i in range(len(fu)):
        if abs(fu[i][1] - fa[i][1] - fb[i][1]) > 1e-9:
            v.append(('folding-profile-not-additive', 'pH %s: union %r parts %r + %r' % (fu[i][0], fu[i][1], fa[i][1], fb[i][1])))
            break
    seen = set()
    for ck, what in v:
        if ck not in seen:
            seen.add(ck)
            acc.viols.append(Viol(case, 'locality', ck, what, inputs=inputs))

"""C16 - every contribution has the physically required sign and stays in model bounds."""
from ..core import Acc, Viol, jhash
from .. import pk, gen, cmp, corpus

ID = 'C16'
HORIZON_S = 1800   # one case = one input under all its transformations
LEVEL = 'exploration'
LEVEL_TEXT = ('Every ordered pair of group kinds (19 titratable kinds incl. termini and ligand groups x 53 kinds incl. every ligand '
              'template and all 21 ions) is docked at distances straddling the interaction cut-offs and at burial levels that switch '
              'the Coulomb term on and saturate it, every 3-group cluster and every cut-out of the reference proteins is added, and '
              'each real result is passed through monitors written from the statement: sign of both desolvation terms against the '
              'group charge, sign of backbone determinants, sign of every Coulomb determinant against the charges of both partners '
              '(ion charge for ions), 0 <= buried <= 1, magnitude bounds per determinant from the configured maxima, and '
              'antisymmetry of the Coulomb determinants of reported acid-base side-chain pairs.')
LEVEL_NOTE = ('The bounds are read from the Parameters object of the run (sidechain_interaction, exception values, backbone tables, '
              'coulomb_cutoff1) and the constants 244.12 and 30 of the statement; monitors are evaluated per conformation, not on the '
              'average.')
TECHNIQUE = 'exhaustive enumeration of interaction classes (kind x kind x distance x burial); invariant monitors on every reached result'
ASSUMPTIONS = ['partner charge of a determinant is the formal charge of the partner group (ion charge for ions)']

TITR = corpus.PROT_T + corpus.TERM + corpus.LIG_T
ALLK = corpus.PROT_T + corpus.PROT_N + corpus.TERM + corpus.LIG_T + corpus.LIG_N + corpus.ALL_IONS
EXC = {frozenset(('COO', 'HIS')): 'COO_HIS_exception', frozenset(('OCO', 'HIS')): 'OCO_HIS_exception',
       frozenset(('CYS', 'HIS')): 'CYS_HIS_exception', frozenset(('CYS',)): 'CYS_CYS_exception'}


def inputs(tier):
    ds = (2.8, 3.6, 6.0) if tier == 'quick' else (2.6, 2.8, 3.2, 3.6, 4.2, 5.0, 6.0, 8.0, 9.8)
    lv = ('mid', 'deep') if tier == 'quick' else ('exposed', 'mid', 'deep')
    out = [dict(src='corpus', d=d) for d in corpus.pairs(tier, kinds_a=TITR, kinds_b=ALLK, dists=ds, levels=lv)]
    out += [dict(src='corpus', d=d) for d in corpus.clusters(tier)]
    out += [dict(src='corpus', d=d) for d in corpus.cutouts(tier, radius=10.0, every=(1 if tier == 'thorough' else 4))]
    # ligands bridging the amide N-H and the carbonyl O of one residue (two backbone determinants from one residue)
    for lig in ('ACT', 'PYR', 'MGU', 'MAM'):
        for which in (0, 1, 2):
            for lv in ('exposed', 'deep'):
                out.append(dict(src='corpus', d=dict(t='bbbridge', lig=lig, which=which, level=lv)))
    # covalently coupled titratable groups next to a close charged partner (parameter toggles below act on them)
    coupled = [dict(src='corpus', d=corpus.cutout_desc('4DFR', 'A', 26, 10.0)), dict(src='corpus', d=corpus.cutout_desc('4DFR', 'B', 26, 10.0)),
               dict(src='corpus', d=corpus.pair_desc('MPO', 'ARG', 2.8, 'deep')), dict(src='corpus', d=corpus.pair_desc('MPO', 'LYS', 2.8, 'deep')),
               dict(src='corpus', d=corpus.pair_desc('MPO', 'GLU', 3.0, 'deep')), dict(src='corpus', d=corpus.window_desc('3SGB', 'I', 0, 8))]
    out += coupled
    out += [dict(i, cfg=c) for i in coupled for c in ('shared', 'shared-keep', 'centre', 'centre-keep')]
    out += [dict(src='corpus', d=d, cfg=c) for c in ('centre', 'centre-keep') for d in (corpus.window_desc('1HPX', 'A', 66, 8), corpus.window_desc('1FTJ', 'A', 55, 10),
                                                                                      corpus.pair_desc('MGU', 'ACT', 2.9, 'deep'))]
    # the same monitors under parameter files that move the scalar settings the bounds are read from
    base = [i for i in out if i['d']['t'] in ('cutout', 'cluster')] + [i for i in out if i['d']['t'] == 'pair'][:: (7 if tier == 'quick' else 3)]
    for name in CFG_EDITS:
        if not name.startswith(('shared', 'centre')):
            out += [dict(i, cfg=name) for i in base[:: (2 if tier == 'quick' else 1)]]
    # two calculations one after the other in the same process, the second under a parameter file with tighter maxima: its bounds
    # are those of its own parameter file
    for d in (corpus.pair_desc('ASP', 'GLU', 2.8, 'deep'), corpus.cluster_desc(('GLU', 'HIS', 'ASP'), 'star', 3.0, 'deep'), corpus.cutout_desc('1HPX', 'A', 24, 10.0)):
        for first, second in ((None, 'hbond-low'), ('hbond', 'hbond-low'), (None, 'ranges-wide'), ('ranges', 'ranges-wide')):
            out.append(dict(src='sequence', d=d, first=first, cfg=second))
    # several conformations (a residue mutated or displaced in the second model): the bounds and sign rules hold in every conformation
    # and - being convex - in the reported average
    for ks, lay in ((('ASP', 'LYS', 'GLU'), 'line'), (('GLU', 'HIS', 'ASP'), 'star'), (('TYR', 'ARG', 'ASP'), 'line'), (('CYS', 'LYS', 'GLU'), 'star'),
                    (('HIS', 'GLU', 'GLU'), 'line'), (('LYS', 'ASP', 'TYR'), 'star')):
        for how in ('mutant-first', 'mutant-second', 'displaced'):
            out.append(dict(src='models', d=corpus.cluster_desc(ks, lay, 3.0, 'deep'), how=how))
    # two residues of one type that differ only in their insertion code (same chain, same number) around a common partner
    for ks, lay in ((('LYS', 'ASP', 'ASP'), 'star'), (('ARG', 'GLU', 'GLU'), 'star'), (('ASP', 'LYS', 'LYS'), 'star'), (('HIS', 'GLU', 'GLU'), 'star'),
                    (('TYR', 'ARG', 'ARG'), 'star'), (('LYS', 'ASP', 'ASP'), 'line')):
        for lv in ('mid', 'deep'):
            out.append(dict(src='twins', d=corpus.cluster_desc(ks, lay, 3.0, lv)))
    if tier == 'thorough':
        out += [dict(src='corpus', d=corpus.file_desc(k)) for k in gen.PROTEINS]
    return out


def build_twins(case, seed):
    """The cluster with its third part relabelled as the insertion-code twin of the second (chain, numbers of the second part + 'A')."""
    s = corpus.build(case['d'], seed)
    chains = []
    for a in s.atoms:
        if a.chain not in chains:
            chains.append(a.chain)
    second, third = chains[1], chains[2]
    lo2 = min(a.resnum for a in s.atoms if a.chain == second)
    lo3 = min(a.resnum for a in s.atoms if a.chain == third)
    for a in s.atoms:
        if a.chain == third:
            a.chain, a.resnum, a.icode = second, a.resnum - lo3 + lo2, 'A'
    return s


def build_models(case, seed):
    """The cluster as two MODELs; in one of them the first part's residue is an alanine (group absent) or shifted by 0.6 A."""
    s = corpus.build(case['d'], seed)
    kind = case['d']['kinds'][0]

    def variant(items, how):
        out = []
        for it in items:
            if isinstance(it, str):
                out.append(it)
                continue
            b = it.clone()
            if b.chain == 'A' and b.resname.strip() == kind:
                if how == 'mutant':
                    if b.name not in gen.BACKBONE + ('CB', 'OXT'):
                        continue
                    b.resname = 'ALA'
                elif how == 'displaced' and b.name not in gen.BACKBONE + ('CB',):
                    b.x, b.y, b.z = b.x + 400, b.y - 300, b.z + 300
            out.append(b)
        return out
    m1 = variant(s.items, 'mutant' if case['how'] == 'mutant-first' else 'same')
    m2 = variant(s.items, 'mutant' if case['how'] == 'mutant-second' else ('displaced' if case['how'] == 'displaced' else 'same'))
    return gen.S(['MODEL        1\n'] + m1 + ['ENDMDL\n', 'MODEL        2\n'] + m2 + ['ENDMDL\n']).renumber_serials()


def plan(tier, seed):
    ins = inputs(tier)
    small = [i for i in ins if i['d']['t'] != 'file']
    shards = [small[i:i + 40] for i in range(0, len(small), 40)] + [[i] for i in ins if i['d']['t'] == 'file']
    return dict(shards=shards, exhaustive=True,
                rule=('docked pairs: 19 titratable kinds x 53 kinds (7 titratable + 5 polar side chains, N+, C-, 18 ligand templates, 21 '
                      'ions) x distances %s x burial levels %s; all 3-group clusters; 10 A cut-outs of 4 proteins. clusters whose third part is the insertion-code twin of the second (same chain and number); also two- and three-model inputs (monitors on every conformation and on the average), parameter files with wide ranges / low hydrogen-bond threshold / common charge centre / extended exclusion lists, and two calculations in a row in one process. non-trivial = distinct '
                      'inputs whose record carries at least one determinant; the number of distinct (type, type, determinant class, sign) '
                      'combinations observed is reported as distinct outcomes') % (
                          '(2.8,3.6,6.0)' if tier == 'quick' else '(2.6 ... 9.8, 9 values)', 'mid, deep' if tier == 'quick' else 'exposed, mid, deep'),
                bounds=dict(inputs=len(ins)), samples=[ins[0], ins[len(ins) // 2]])


def monitor(rec, params, confs=None):
    """Returns [(class_key, what)] and a set of observed interaction classes.

    With shared_determinants switched on, covalently coupled groups copy each other's determinants whatever their charge (that
    is what the switch is for), so only the magnitude bounds and the buried range are judged under such parameter files."""
    v, seen = [], set()
    v, seen = monitor_(rec, params, confs)
    if getattr(params, 'shared_determinants', 0):
        v = [x for x in v if x[0].split('/')[0] in ('buried-out-of-range', 'backbone-bound', 'sidechain-bound', 'coulomb-bound')]
    return v, seen


def monitor_(rec, params, confs=None):
    v, seen = [], set()
    side_max = 2.0 * abs(params.sidechain_interaction) if not hasattr(params.sidechain_interaction, 'get_value') else 1.7
    bb_max = max([abs(x[0]) for x in list(params.backbone_NH_hydrogen_bond.values()) + list(params.backbone_CO_hydrogen_bond.values())] or [0.85])
    coul_max = 244.12 / (30.0 * params.coulomb_cutoff1)
    for name in (confs or rec['conformations']):
        groups = rec['confs'][name]['groups']
        by = {}
        for g in groups:
            by.setdefault(g['key'], g)
        for g in groups:
            q = g['charge']
            acid = q < 0
            if not (0.0 <= g['buried'] <= 1.0):
                v.append(('buried-out-of-range', '%s buried %r' % (g['key'], g['buried'])))
            if not g['titratable'] and g['type'] != 'ION':
                continue
            if q and g['type'] != 'ION':
                if (acid and g['energy_volume'] < -1e-12) or (not acid and g['energy_volume'] > 1e-12):
                    v.append(('desolvation-sign/%s' % ('acid' if acid else 'base'), '%s energy_volume %r' % (g['key'], g['energy_volume'])))
                if (acid and g['energy_local'] < -1e-12) or (not acid and g['energy_local'] > 1e-12):
                    v.append(('desolvation-sign/RE/%s' % ('acid' if acid else 'base'), '%s energy_local %r' % (g['key'], g['energy_local'])))
            for pkey, lab, val in g['dets']['backbone']:
                seen.add((g['type'], 'BB', 'backbone', val > 0))
                if (acid and val > 1e-12) or (not acid and val < -1e-12):
                    v.append(('backbone-sign/%s' % ('acid' if acid else 'base'), '%s backbone det %r from %s' % (g['key'], val, pkey)))
                if abs(val) > bb_max + 1e-9:
                    v.append(('backbone-bound', '%s backbone det %r exceeds %r' % (g['key'], val, bb_max)))
            for pkey, lab, val in g['dets']['sidechain']:
                p = by.get(pkey)
                pt = p['type'] if p else '?'
                seen.add((g['type'], pt, 'sidechain', val > 0))
                bound = side_max
                exc = EXC.get(frozenset((g['type'], pt)))
                if exc:
                    bound = max(bound, abs(getattr(params, exc)))
                if abs(val) > bound + 1e-9:
                    v.append(('sidechain-bound/%s-%s' % tuple(sorted((g['type'], pt))), '%s sidechain det %r from %s exceeds %r' % (g['key'], val, pkey, bound)))
            for pkey, lab, val in g['dets']['coulomb']:
                p = by.get(pkey)
                if p is None:
                    continue
                qp = p['charge']
                if p['type'] == 'ION':
                    # the formal charge of an ion is the one configured for the residue name it has in the file (table of the
                    # statement, gen.IONS; C01 checks it against the shipped parameter file), not what the group object carries
                    qp = gen.IONS.get(pkey.split(':')[2].strip(), qp)
                    if abs(p['charge'] - qp) > 1e-9:
                        v.append(('ion-charge-not-configured-value/%s' % pkey.split(':')[2].strip(), '%s carries charge %r, configured %r' % (pkey, p['charge'], qp)))
                seen.add((g['type'], p['type'], 'coulomb', val > 0))
                if q and qp and abs(val) > 1e-12:
                    opposite = q * qp < 0
                    want_positive = (q > 0) if opposite else (q < 0)
                    if (val > 0) != want_positive:
                        v.append(('coulomb-sign/%s-%s/%s' % ('acid' if acid else 'base', 'ion' if p['type'] == 'ION' else ('acid' if qp < 0 else 'base'),
                                                             'opposite' if opposite else 'like'),
                                  '%s (q=%s) coulomb det %r from %s (q=%s)' % (g['key'], q, val, pkey, qp)))
                bound = coul_max * (abs(qp) if p['type'] == 'ION' else 1.0)
                if abs(val) > bound + 1e-9:
                    v.append(('coulomb-bound/%s' % ('ion' if p['type'] == 'ION' else 'group'), '%s coulomb det %r from %s exceeds %r' % (g['key'], val, pkey, bound)))
                # antisymmetry for reported acid-base protein side-chain pairs
                if (p['type'] != 'ION' and q * qp < 0 and g['use'] and p['use'] and not g['penalised_by'] and not p['penalised_by']
                        and ':' in g['key'] and g['residue_type'] in gen.TITR and p['residue_type'] in gen.TITR):
                    back = [x[2] for x in p['dets']['coulomb'] if x[0] == g['key']]
                    fwd = [x[2] for x in g['dets']['coulomb'] if x[0] == pkey]
                    if abs(sum(back) + sum(fwd)) > 1e-9:
                        v.append(('coulomb-not-antisymmetric', '%s <-> %s: %r vs %r' % (g['key'], pkey, fwd, back)))
    return v, seen


CFG_EDITS = {'shared': {'shared_determinants': '1'}, 'shared-keep': {'shared_determinants': '1', 'remove_penalised_group': '0'},
             'allowance': {'desolvationAllowance': '0.05'}, 'scaling': {'desolvationSurfaceScalingFactor': '0.0', 'desolvationPrefactor': '-20.0'},
             'ranges': {'Nmin': '100', 'Nmax': '300', 'coulomb_cutoff1': '3.0', 'coulomb_cutoff2': '12.0'},
             'hbond': {'sidechain_interaction': '1.2', 'COO_HIS_exception': '2.9', 'CYS_CYS_exception': '4.4'},
             'ranges-wide': {'coulomb_cutoff1': '6.0', 'coulomb_cutoff2': '12.0'}, 'hbond-low': {'sidechain_interaction': '0.30'},
             'centre': {'common_charge_centre': '1'}, 'centre-keep': {'common_charge_centre': '1', 'remove_penalised_group': '0'},
             'exclude-his': {'+exclude_sidechain_interactions': ['HIS']}, 'exclude-acids': {'+exclude_sidechain_interactions': ['ASP', 'GLU', 'C-']},
             'exclude-bases': {'+exclude_sidechain_interactions': ['LYS', 'ARG', 'TYR', 'CYS']}}


def cfg_path(name):
    import os
    from . import c02
    path = os.path.abspath('c16_%s.cfg' % name)
    if not os.path.exists(path):
        lines = []
        for ln in c02.cfg_variants()[(1, 0, 0)].splitlines(True):
            w = ln.split()
            if w and w[0] in CFG_EDITS[name]:
                ln = '%s %s\n' % (w[0], CFG_EDITS[name][w[0]])
            lines.append(ln)
        for key, vals in CFG_EDITS[name].items():
            if key.startswith('+'):      # list keywords the shipped file does not use: one line per entry
                lines += ['%s %s\n' % (key[1:], x) for x in vals]
        with open(path, 'w') as fh:
            fh.write(''.join(lines))
    return path


def run_case(case, ctx, acc):
    s = build_models(case, ctx.seed) if case['src'] == 'models' else build_twins(case, ctx.seed) if case['src'] == 'twins' else corpus.build(case['d'], ctx.seed)
    text = gen.to_text(s)
    opts = ()
    if case.get('cfg'):
        opts = ('-p', cfg_path(case['cfg']))
    if case['src'] == 'sequence':
        pk.run(text, ('-p', cfg_path(case['first'])) if case['first'] else ())
    mol = pk.run(text, opts)
    rec = pk.record(mol)
    v, seen = monitor(rec, mol.version.parameters)
    if len(rec['conformations']) > 1:
        # the reported average of several conformations: ranges, bounds and signs survive averaging (antisymmetry does not when a
        # partner is missing from some conformations)
        va, _ = monitor(rec, mol.version.parameters, confs=['AVR'])
        v += [(ck + '/average', what) for ck, what in va if not ck.startswith('coulomb-not-antisymmetric')]
    nt = any(any(g['dets'][t] for t in g['dets']) for c in rec['conformations'] for g in rec['confs'][c]['groups'])
    acc.case(nontrivial_key=jhash(case) if nt else None)
    for x in seen:
        acc.outcomes['%s|%s|%s|%s' % x] += 1
    done = set()
    for ck, what in v:
        if ck not in done:
            done.add(ck)
            acc.viols.append(Viol(case, 'monitor', ck, what, inputs=dict(pdb=text)))

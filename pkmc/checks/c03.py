"""C03 - results are a pure function of input content and options (explicit-state search over global state)."""
import collections
import hashlib
import io
import itertools
import json
import multiprocessing
import os
import subprocess
import sys
import tempfile

from ..core import Acc, Viol, jhash, gather, merge, fresh
from .. import pk, gen, cmp, corpus, snapshot, VERIF, REPO
from . import c02, c07
import propka.run

ID = 'C03'
HORIZON_S = 1800   # one case = one input under all its transformations
LEVEL = 'model_checking'
LEVEL_TEXT = ('Explicit-state breadth-first search over the global state of the package: the state is a generic by-value snapshot of '
              'every global and class attribute of every propka.* module plus logger configuration; the transitions are real API/CLI '
              'calls from an alphabet of operations that pairwise differ in which global they touch (unknown element, other parameter '
              'file, quiet, display mode, keep-protons, protonate-all, chain selection, titrate-only, ligands, main() with two files). '
              'Every operation is applied in every reached state (fresh fork, history replayed) until no new state appears; in every '
              'state the full observation record and .pka text of every operation must equal that of the operation run alone in a fresh '
              'process. Closure extends the result to histories of any length. In addition every iteration order of every set of '
              'coupled groups (the only address-dependent choice in the package) is enumerated through a __hash__ seam, and every '
              'operation is repeated in fresh interpreters under 4 hash seeds, 2 working directories and path/StringIO/file streams.')
LEVEL_NOTE = ('Sound for state held in module globals, class attributes, logger configuration; the count of stdout handlers that main() '
              'adds to the root logger is abstracted to none/some (console multiplicity only). Iteration orders are enumerated for '
              'systems of up to 4 coupled groups.')
TECHNIQUE = 'explicit-state BFS with state hashing over real API calls until closure; exhaustive schedule (set iteration order) enumeration; environment answers enumerated in fresh interpreters'
ASSUMPTIONS = ['all cross-run state of the package lives in propka.* module globals, class attributes and logging configuration']


# ------------------------------------------------------------------ operations
def _texts():
    lib = gen.library()
    tri = gen.to_text(lib.window('3SGB', 'I', 26, 3))
    cut = gen.to_text(corpus.build(corpus.cutout_desc('4DFR', 'A', 26, 9.0)))
    unk = tri + 'HETATM  900  D1  UNK X 900      30.000  30.000  30.000  1.00  0.00           D\n' \
                'HETATM  901  Q2  UNK X 900      31.400  30.000  30.000  1.00  0.00           Q\n'
    clu = gen.to_text(corpus.build(corpus.cluster_desc(('GLU', 'GLU', 'HIS'), 'star', 3.0, 'mid')))
    clu2 = gen.to_text(corpus.build(corpus.cluster_desc(('ASP', 'GLU', 'LYS'), 'line', 3.0, 'deep')))
    pair = gen.to_text(corpus.build(corpus.pair_desc('ASP', 'LYS', 2.8, 'mid')))
    nterm = gen.to_text(corpus.build(corpus.window_desc('3SGB', 'I', 0, 4)))
    mpo = gen.to_text(gen.ligand('MPO'))

    def as_lig(name):
        # a template renamed to residue LIG with atom names X1, X2 ... by element: different molecules, same names
        s_ = gen.ligand(name, 'L', 700)
        count = {}
        for a in s_.atoms:
            el = a.element
            count[el] = count.get(el, 0) + 1
            a.resname = 'LIG'
            a.name4 = gen.name4('%s%d' % (el.upper(), count[el]), el)
        return gen.to_text(s_)
    # characters outside ASCII in columns the program does not read (a no-break space in column 21, an accented remark)
    nonascii = 'REMARK   1 r\u00e9sum\u00e9 \u2032\n' + ''.join((ln[:20] + '\u00a0' + ln[21:]) if ln.startswith('ATOM') and k % 3 == 0 else ln
                                                            for k, ln in enumerate(pair.splitlines(True)))
    # two models, the first of which lacks four chains of the second
    def chain_copy(ch, k):
        c = lib.window('3SGB', 'I', 26, 3)
        for a in c.atoms:
            a.chain = ch
        return c.translate((40000 * k, 0, 0))
    later = gen.S(['MODEL        1\n'] + chain_copy('A', 0).items + ['TER\n', 'ENDMDL\n', 'MODEL        2\n'] + [
        it for k, ch in enumerate('ABCDE') for it in chain_copy(ch, k).items + ['TER\n']] + ['ENDMDL\n'])
    later.renumber_serials()
    later = gen.to_text(later)
    return dict(tri=tri, cut=cut, unk=unk, clu=clu, clu2=clu2, pair=pair, nterm=nterm, mpo=mpo, nonascii=nonascii, later=later,
                lig_a=tri + 'TER\n' + as_lig('NMA'), lig_b=tri + 'TER\n' + as_lig('DMA'), lig_c=tri + 'TER\n' + as_lig('ACT'))


def operations(tier):
    ops = [
        dict(name='tripeptide', text='tri', opts=[]),
        dict(name='tripeptide-quiet', text='tri', opts=['-q']),
        dict(name='ligand-cutout', text='cut', opts=[]),
        dict(name='unknown-element', text='unk', opts=[]),
        dict(name='cluster-display', text='clu', opts=['-d']),
        dict(name='cluster', text='clu', opts=[]),
        dict(name='other-parameters', text='nterm', opts=[], cfg=(0, 1, 1)),
        dict(name='other-cutoffs', text='clu2', opts=[], cfg_edit={'desolv_cutoff': '30.0', 'buried_cutoff': '22.0', 'coulomb_cutoff2': '12.0'}),
        # the thresholds of the coupling analysis differ from the shipped ones (the analysis object is a module-level singleton)
        dict(name='other-coupling-thresholds', text='clu', opts=['-d'], cfg_edit={'min_interaction_energy': '50.0', 'max_intrinsic_pka_diff': '0.1'}),
        dict(name='other-coupling-thresholds-plain', text='clu', opts=[], cfg_edit={'min_interaction_energy': '50.0', 'max_intrinsic_pka_diff': '0.1'}),
        dict(name='protonate-all', text='tri', opts=['--protonate-all']),
        dict(name='chain-select', text='pair', opts=['-c', 'A']),
        dict(name='main-two-files', text='tri', opts=[], main=['pair', 'tri']),
        dict(name='ligand-LIG-amide', text='lig_a', opts=[]),
        dict(name='ligand-LIG-amine', text='lig_b', opts=[]),
        # two parameter files that are written to the same path one after the other; a structure read as a member of a ZIP archive
        # that is re-written under the same name; a caller who edits the Parameters object a finished run returned
        dict(name='shared-cfg-path-1', text='clu2', opts=[], cfg_edit={'desolv_cutoff': '30.0', 'buried_cutoff': '22.0'}, cfg_path='shared.cfg'),
        dict(name='shared-cfg-path-2', text='clu2', opts=[], cfg_edit={'coulomb_cutoff2': '12.0', 'sidechain_interaction': '1.0'}, cfg_path='shared.cfg'),
        dict(name='zip-member-1', text='tri', opts=[], via_zip=True),
        dict(name='zip-member-2', text='pair', opts=[], via_zip=True),
        dict(name='tune-returned-parameters', text='nterm', opts=[], tune_after=True),
        dict(name='non-ascii-characters', text='nonascii', opts=[]),
        # option values that only shape the report (grid without window, window without grid, pH and reference state)
        dict(name='coarse-grid', text='pair', opts=['-g', '0', '14', '2']),
        dict(name='window-only', text='pair', opts=['-w', '2', '9', '0.5']),
        dict(name='ph-and-reference', text='tri', opts=['-o', '3.5', '-r', 'low-pH']),
        dict(name='chains-of-a-later-model', text='later', opts=[]),
    ]
    if tier == 'thorough':
        ops += [
            dict(name='titrate-only', text='clu2', opts=['-i', 'A:2']),
            dict(name='keep-protons', text='tri', opts=['-k'], feed=True),
            dict(name='cluster2-display', text='clu2', opts=['-d']),
            dict(name='grid-window', text='pair', opts=['-g', '1', '2', '0.1', '-w', '0', '14', '2']),
            dict(name='phosphate', text='mpo', opts=[]),
            dict(name='nterm-asp', text='nterm', opts=[]),
            dict(name='ligand-LIG-acetate', text='lig_c', opts=[]),
        ]
    return ops


_TEXTS = None


def texts():
    global _TEXTS
    if _TEXTS is None:
        _TEXTS = _texts()
    return _TEXTS


def execute(op, mode='stream'):
    """Run one operation for real; returns its observation (record + text, plain data)."""
    T = texts()
    opts = list(op['opts'])
    if 'cfg' in op:
        path = os.path.abspath('other_%d%d%d.cfg' % tuple(op['cfg']))
        if not os.path.exists(path):
            with open(path, 'w') as fh:
                fh.write(c02.cfg_variants()[tuple(op['cfg'])])
        opts += ['-p', path]
    if 'cfg_edit' in op:
        path = os.path.abspath(op.get('cfg_path') or 'edited_%s.cfg' % op['name'])
        if op.get('cfg_path') or not os.path.exists(path):
            lines = []
            for ln in c02.cfg_variants()[(1, 0, 0)].splitlines(True):
                w = ln.split()
                if w and w[0] in op['cfg_edit']:
                    ln = '%s %s\n' % (w[0], op['cfg_edit'][w[0]])
                lines.append(ln)
            with open(path, 'w') as fh:
                fh.write(''.join(lines))
        opts += ['-p', path]
    text = T[op['text']]
    if op.get('feed'):
        m = pk.run(text)
        text = gen.to_text(c07.hydrogens_fed_back(gen.parse_text(text), m))
    if 'main' in op:
        names = []
        for i, key in enumerate(op['main']):
            nm = 'main_%d_%s.pdb' % (i, key)
            with open(nm, 'w') as fh:
                fh.write(T[key])
            names.append(nm)
        old = sys.argv
        sys.argv = ['propka3', names[0]] + [x for n in names[1:] for x in ('-f', n)] + ['-q']
        saved_out = sys.stdout
        sys.stdout = io.StringIO()
        try:
            propka.run.main()
        finally:
            sys.argv = old
            sys.stdout = saved_out
        out = {}
        for nm in names:
            with open(nm[:-4] + '.pka') as fh:
                out[nm] = pk.strip_date(fh.read())
            os.unlink(nm[:-4] + '.pka')
        return dict(main=out)
    if op.get('via_zip'):
        import zipfile
        with zipfile.ZipFile('archive.zip.new', 'w') as zf:      # the archive is replaced by a new file, the member keeps its name
            zf.writestr('x.pdb', text)
        os.replace('archive.zip.new', 'archive.zip')
        saved_out = sys.stdout
        sys.stdout = io.StringIO()
        try:
            mol = propka.run.single(os.path.join('archive.zip', 'x.pdb'), optargs=tuple(opts), write_pka=False)
        finally:
            sys.stdout = saved_out
        mol.name = 'x'
        mol._pka_text = pk.pka_text(mol)
    elif mode == 'stream':
        mol = pk.run(text, opts, write=True)
    elif mode == 'path':
        with open('op_input.pdb', 'w', encoding='utf-8') as fh:
            fh.write(text)
        mol = propka.run.single('op_input.pdb', optargs=tuple(opts), write_pka=False)
        mol.name = 'x'
        mol._pka_text = pk.pka_text(mol)
    elif mode == 'textfile':
        with open('op_input2.pdb', 'w', encoding='utf-8') as fh:
            fh.write(text)
        with open('op_input2.pdb', 'rt', encoding='utf-8') as fh:
            mol = propka.run.single('x.pdb', optargs=tuple(opts), stream=fh, write_pka=False)
        mol._pka_text = pk.pka_text(mol)
    elif mode == 'used-stream':
        # a text stream the caller has already read from (two lines consumed; a StringIO filled with write() and left at its end)
        st = io.StringIO()
        st.write(text)
        mol = propka.run.single('x.pdb', optargs=tuple(opts), stream=st, write_pka=False)
        mol._pka_text = pk.pka_text(mol)
        st2 = io.StringIO(text)
        st2.readline()
        st2.readline()
        mol2 = propka.run.single('x.pdb', optargs=tuple(opts), stream=st2, write_pka=False)
        if pk.pka_text(mol2) != mol._pka_text:
            mol._pka_text = pk.pka_text(mol2)
            mol = mol2
            mol._pka_text = pk.pka_text(mol2)
    rec = pk.record(mol, text=mol._pka_text)
    if op.get('tune_after'):
        # what a caller may do with the objects a finished calculation handed back
        prm = mol.version.parameters
        prm.model_pkas['HIS'] = 7.5
        prm.model_pkas['ASP'] = 2.0
        prm.ions['ZN'] = 5
        prm.parse_line('sidechain_cutoffs default 1.0 2.0')
        prm.parse_line('desolv_cutoff 11.0')
        prm.acid_list.append('HIS')
    return dict(rec=rec)


def obs_diff(a, b):
    if 'main' in a:
        for k in a['main']:
            if a['main'][k] != b['main'].get(k):
                la, lb = a['main'][k].split('\n'), b['main'].get(k, '').split('\n')
                for i, (x, y) in enumerate(zip(la, lb)):
                    if x != y:
                        return 'text/%s line %d: %r vs %r' % (k, i, x[:80], y[:80])
                return 'text/%s length' % k
        return None
    d = cmp.diff_records(a['rec'], b['rec'], tol=0.0)
    return ('%s: %s' % (d[0][0], str(d[0])[:250])) if d else None


# ------------------------------------------------------------------ BFS workers (run in fresh forks)
_SOLO = {}
_OPS = []


def _bfs_worker(args):
    history, op_index, tier = args
    scratch = tempfile.mkdtemp(prefix='pkmc-c03-', dir='/dev/shm' if os.path.isdir('/dev/shm') else None)
    old = os.getcwd()
    os.chdir(scratch)
    try:
        pk.quiet()
        for h in history:
            execute(_OPS[h])
        before = snapshot.digest(snapshot.snapshot())
        obs = execute(_OPS[op_index]) if op_index is not None else None
        snap = snapshot.snapshot()
        d = obs_diff(_SOLO[op_index], obs) if op_index is not None else None
        return dict(history=history, op=op_index, diff=d, state=snapshot.digest(snap), before=before, snap=snap if op_index is None or True else None)
    except (Exception, SystemExit) as exc:
        import traceback
        return dict(history=history, op=op_index, error='%s: %s' % (type(exc).__name__, str(exc)[:200]), tb=traceback.format_exc()[-1500:])
    finally:
        os.chdir(old)
        import shutil
        shutil.rmtree(scratch, ignore_errors=True)


def _solo_worker(args):
    op_index, mode = args
    scratch = tempfile.mkdtemp(prefix='pkmc-c03-', dir='/dev/shm' if os.path.isdir('/dev/shm') else None)
    old = os.getcwd()
    os.chdir(scratch)
    try:
        pk.quiet()
        return execute(_OPS[op_index], mode)
    finally:
        os.chdir(old)
        import shutil
        shutil.rmtree(scratch, ignore_errors=True)


def _solo_indexed(args):
    return dict(index=args[0], obs=_solo_worker(args))


def bfs(tier, nproc, acc):
    global _OPS, _SOLO
    _OPS = operations(tier)
    mp = multiprocessing.get_context('fork')
    texts()
    # reference: every operation alone in a fresh process
    from ..core import pmap_unordered
    _SOLO = {}
    for res in pmap_unordered(_solo_indexed, [(i, 'stream') for i in range(len(_OPS))], min(nproc, len(_OPS))):
        if 'died' in res:
            raise RuntimeError('solo run died: ' + res['died'][-500:])
        _SOLO[res['index']] = res['obs']
    init = fresh(_bfs_worker, ([], None, tier))
    states = {init['state']: []}
    snaps = {init['state']: init['snap']}
    frontier = [[]]
    transitions = 0
    edges = []
    depth = 0
    max_depth = 6
    max_states = 40 if tier == 'quick' else 120
    while frontier and depth < max_depth and len(states) <= max_states and len(acc.viols) < 40:
        jobs = [(h, i, tier) for h in frontier for i in range(len(_OPS))]
        nxt = []
        if True:
            for res in pmap_unordered(_bfs_worker, jobs, min(nproc, len(jobs))):
                if 'died' in res:
                    raise RuntimeError('history worker died: ' + res['died'][-500:])
                transitions += 1
                acc.n += 1
                h, i = res['history'], res['op']
                case = dict(kind='history', history=[_OPS[x]['name'] for x in h], op=_OPS[i]['name'], tier=tier)
                acc.nontrivial.add(jhash(case))
                if 'error' in res:
                    acc.viols.append(Viol(case, 'history', 'operation-raises-after-history/%s' % _OPS[i]['name'], res['error'], detail=res.get('tb')))
                    continue
                if res['diff']:
                    cause = _OPS[h[-1]]['name'] if h else 'pristine'
                    acc.viols.append(Viol(case, 'history', 'result-depends-on-history/op=%s/after=%s' % (_OPS[i]['name'], cause),
                                          'after %s: %s' % ([_OPS[x]['name'] for x in h], res['diff'])))
                edges.append((res['before'], _OPS[i]['name'], res['state']))
                acc.outcomes[res['state']] += 1
                if res['state'] not in states:
                    states[res['state']] = h + [i]
                    snaps[res['state']] = res['snap']
                    nxt.append(h + [i])
        frontier = nxt
        depth += 1
    # state the snapshot cannot see (caches held by C-level objects, open handles, the file system): every ordered pair of operations
    # is executed in a fresh process whatever the state hash says (thorough: every ordered triple of a sub-alphabet as well)
    done = set(tuple(states[k_]) for k_ in states)
    seqs = [[i] for i in range(len(_OPS))]
    if tier == 'thorough':
        core = [i for i, o in enumerate(_OPS) if o['name'] in ('tripeptide', 'cluster-display', 'other-cutoffs', 'other-coupling-thresholds', 'shared-cfg-path-1', 'shared-cfg-path-2',
                                                               'zip-member-1', 'zip-member-2', 'tune-returned-parameters', 'main-two-files', 'ligand-LIG-amide')]
        seqs += [[i, j] for i in core for j in core]
    jobs = [(h, i, tier) for h in seqs for i in range(len(_OPS) if len(h) == 1 else 0)] + \
           [(h, i, tier) for h in seqs if len(h) == 2 for i in [x for x, o in enumerate(_OPS) if x in h or o['name'] in ('tripeptide', 'cluster', 'zip-member-1')]]
    if len(acc.viols) < 40:
        if True:
            for res in pmap_unordered(_bfs_worker, jobs, min(nproc, len(jobs))):
                if 'died' in res:
                    raise RuntimeError('history worker died: ' + res['died'][-500:])
                transitions += 1
                acc.n += 1
                h, i = res['history'], res['op']
                case = dict(kind='history', history=[_OPS[x]['name'] for x in h], op=_OPS[i]['name'], tier=tier)
                acc.nontrivial.add(jhash(case))
                if 'error' in res:
                    acc.viols.append(Viol(case, 'history', 'operation-raises-after-history/%s' % _OPS[i]['name'], res['error'], detail=res.get('tb')))
                elif res['diff']:
                    acc.viols.append(Viol(case, 'history', 'result-depends-on-history/op=%s/after=%s' % (_OPS[i]['name'], _OPS[h[-1]]['name']),
                                          'after %s: %s' % ([_OPS[x]['name'] for x in h], res['diff'])))
    acc.extra['sequences_run_regardless_of_state_hash'] = len(jobs)
    closed = not frontier
    if len(states) > max_states:
        acc.notes.append('state space did not close within %d states: global state grows with every call' % max_states)
    acc.extra['states'] = len(states)
    acc.extra['transitions'] = transitions
    acc.extra['traces'] = transitions
    acc.extra['bfs_depth_completed'] = depth
    acc.extra['bfs_closed'] = int(closed)
    info = dict(states=len(states), transitions=transitions, closed=closed, depth=depth,
                state_histories={k: [_OPS[x]['name'] for x in v] for k, v in states.items()},
                what_distinguishes_states={k: snapshot.diff(snaps[init['state']], snaps[k])[:6] for k in states if k != init['state']})
    return info


# ------------------------------------------------------------------ E2: schedules (set iteration order)
def order_cases(tier):
    out = []
    kinds3 = [('GLU', 'GLU', 'HIS'), ('ASP', 'GLU', 'LYS'), ('GLU', 'GLU', 'GLU'), ('ASP', 'ASP', 'GLU'), ('HIS', 'HIS', 'ASP'), ('CYS', 'CYS', 'TYR'),
              ('LYS', 'LYS', 'GLU'), ('TYR', 'TYR', 'ASP')]
    for ks in kinds3:
        for layout in ('star', 'line'):
            for lv in ('mid', 'deep'):
                for opts in ([], ['-d']):
                    out.append(dict(kind='order', d=corpus.cluster_desc(ks, layout, 3.0, lv), opts=opts, cfg=[1, 0, 0]))
    if tier == 'thorough':
        for ks in (('GLU', 'GLU', 'HIS', 'ASP'), ('ASP', 'GLU', 'LYS', 'HIS'), ('GLU', 'GLU', 'GLU', 'GLU'), ('CYS', 'CYS', 'HIS', 'TYR')):
            for lv in ('mid', 'deep'):
                for opts in ([], ['-d']):
                    out.append(dict(kind='order', d=corpus.cluster_desc(ks, 'star', 3.0, lv), opts=opts, cfg=[1, 0, 0]))
    # covalently coupled systems (ligand groups within three bonds, N-terminal Asp), all parameter toggles that act on them
    for bits in ([1, 0, 0], [1, 1, 0], [0, 1, 0], [1, 0, 1], [0, 1, 1]):
        out.append(dict(kind='order', lig='MPO', opts=[], cfg=bits))
        out.append(dict(kind='order', d=corpus.window_desc('3SGB', 'I', 0, 4), opts=[], cfg=bits))
        out.append(dict(kind='order', d=corpus.cutout_desc('4DFR', 'A', 26, 9.0), opts=[], cfg=bits))
    return out


def run_order_case(case, ctx, acc):
    if 'lig' in case:
        s = gen.ligand(case['lig']).translate(gen.seed_offset(ctx.seed))
    else:
        s = corpus.build(case['d'], ctx.seed)
    text = gen.to_text(s)
    opts = list(case['opts'])
    bits = tuple(case['cfg'])
    if bits != (1, 0, 0):
        path = os.path.abspath('ord_%d%d%d.cfg' % bits)
        with open(path, 'w') as fh:
            fh.write(c02.cfg_variants()[bits])
        opts += ['-p', path]
    m0 = pk.run(text, opts, write=True)
    r0 = pk.record(m0, text=m0._pka_text)
    conf = m0.conformations[m0.conformation_names[0]]
    systems = []
    for getter in ('covalently_coupled_groups', 'non_covalently_coupled_groups'):
        members = [g for g in conf.groups if getattr(g, getter)]
        seen = set()
        for g in members:
            if id(g) in seen:
                continue
            comp, stack = [], [g]
            while stack:
                x = stack.pop()
                if id(x) in seen:
                    continue
                seen.add(id(x))
                comp.append(x)
                stack += list(getattr(x, getter))
            if len(comp) > 1:
                systems.append(sorted(pk.gkey_s(x) for x in comp))
    keys = sorted({k for sysm in systems for k in sysm})
    acc.extra['coupled_systems'] += len(systems)
    if not keys or len(keys) > 5:
        acc.case(nontrivial_key=None, outcome='no-system' if not keys else 'too-large')
        if len(keys) > 5:
            acc.skipped += 1
        return
    seam = pk.HashOrder()
    outcomes = collections.Counter()
    first_bad = None
    try:
        for perm in itertools.permutations(range(len(keys))):
            seam.install({k: perm[i] + 1 for i, k in enumerate(keys)})
            m = pk.run(text, opts, write=True)
            r = pk.record(m, text=m._pka_text)
            d = cmp.diff_records(r0, r, tol=0.0)
            outcomes[jhash([d[0][0], str(d[0])[:200]]) if d else 'same'] += 1
            acc.extra['schedules'] += 1
            if d and first_bad is None:
                first_bad = (perm, d[0])
    finally:
        seam.remove()
    acc.case(nontrivial_key=jhash(case), outcome='orders=%d' % len(outcomes))
    if first_bad:
        mode = 'display' if '-d' in case['opts'] else 'default'
        acc.viols.append(Viol(case, 'schedule', 'result-depends-on-set-iteration-order/%s/cfg=%d%d%d/%s' % ((mode,) + bits + (first_bad[1][0],)),
                              'coupled groups %s, order %s: %s (%d distinct outcomes over %d orders)' % (
                                  keys, first_bad[0], str(first_bad[1])[:250], len(outcomes), sum(outcomes.values())),
                              inputs=dict(pdb=text, opts=opts)))


# ------------------------------------------------------------------ E3: environment (fresh interpreters)
def run_env_case(case, ctx, acc):
    """One operation in a fresh interpreter under a given hash seed / cwd / input mode; compare with the in-fork reference."""
    ops = operations(ctx.tier)
    op = ops[case['op']]
    ref = execute(op, 'stream')
    env = dict(os.environ, PYTHONHASHSEED=str(case['hashseed']), PROPKA_REPO=REPO, PYTHONDONTWRITEBYTECODE='1')
    wd = tempfile.mkdtemp(prefix='pkmc-env-', dir=os.getcwd())
    if case['cwd'] == 'nested':
        wd2 = os.path.join(wd, 'a b', 'c')
        os.makedirs(wd2)
    else:
        wd2 = wd
    if case['cwd'] == 'decoy-cfg':   # a different parameter file that merely happens to lie in the working directory
        with open(os.path.join(wd2, 'propka.cfg'), 'w') as fh:
            fh.write(c02.cfg_variants()[(1, 0, 0)].replace('model_pkas ASP  3.80', 'model_pkas ASP  4.40').replace('model_pkas GLU  4.50', 'model_pkas GLU  4.10'))
        with open(os.path.join(wd2, 'x.pdb'), 'w') as fh:
            fh.write('REMARK decoy file with the name the stream runs pretend to read\n')
    # logging configuration of the host process: neither content nor option
    logcfg = {'default': '', 'propka-info': 'import logging; logging.getLogger("propka").setLevel(logging.INFO); ',
              'propka-debug': 'import logging; logging.getLogger("propka").setLevel(logging.DEBUG); ',
              'root-info': 'import logging; logging.getLogger().setLevel(logging.INFO); ',
              'disabled': 'import logging; logging.disable(logging.CRITICAL); '}[case.get('log', 'default')]
    code = ('import sys, json; sys.path.insert(0, %r); from pkmc.checks import c03; from pkmc import pk; pk.quiet(); %s'
            'obs = c03.execute(c03.operations(%r)[%d], %r); print("@@" + json.dumps(obs, default=str))') % (VERIF, logcfg, ctx.tier, case['op'], case['mode'])
    p = subprocess.run([sys.executable, '-c', code], cwd=wd2, env=env, capture_output=True, text=True, timeout=300)
    acc.case(nontrivial_key=jhash(case), outcome='env')
    line = [ln for ln in p.stdout.splitlines() if ln.startswith('@@')]
    if p.returncode != 0 or not line:
        acc.viols.append(Viol(case, 'environment', 'fresh-interpreter-fails/%s' % op['name'], (p.stderr or p.stdout)[-400:]))
        return
    obs = json.loads(line[0][2:])
    refj = json.loads(json.dumps(ref, default=str))
    if obs != refj:
        what = 'records differ'
        if 'rec' in obs:
            # locate
            for name in refj['rec']['confs']:
                for ga, gb in zip(refj['rec']['confs'][name]['groups'], obs['rec']['confs'][name]['groups']):
                    if ga != gb:
                        what = '%s %s: %s' % (name, ga['key'], [k for k in ga if ga[k] != gb.get(k)])
                        break
        acc.viols.append(Viol(case, 'environment', 'result-depends-on-environment/%s/%s' % (op['name'], case['mode']), what))


def plan(tier, seed):
    ops = operations(tier)
    orders = order_cases(tier)
    envs = []
    for i, op in enumerate(ops):
        for hs in ((0, 1, 2, 3) if tier == 'thorough' else (0, 3)):
            envs.append(dict(kind='env', op=i, hashseed=hs, cwd='flat', mode='stream'))
        if 'main' not in op and not op.get('via_zip'):
            envs.append(dict(kind='env', op=i, hashseed=1, cwd='nested', mode='path'))
            envs.append(dict(kind='env', op=i, hashseed=2, cwd='flat', mode='textfile'))
            if i < 4:
                envs.append(dict(kind='env', op=i, hashseed=0, cwd='flat', mode='used-stream'))
            if 'cfg' not in op and 'cfg_edit' not in op:
                envs.append(dict(kind='env', op=i, hashseed=0, cwd='decoy-cfg', mode='stream' if i % 2 else 'path'))
        for lg in (('propka-info', 'disabled') if tier == 'quick' else ('propka-info', 'propka-debug', 'root-info', 'disabled')):
            envs.append(dict(kind='env', op=i, hashseed=0, cwd='flat', mode='stream', log=lg))
    shards = [[c] for c in orders] + [envs[i:i + 2] for i in range(0, len(envs), 2)]
    return dict(shards=shards, exhaustive=True,
                rule=('histories: BFS over %d operations (%s) from the pristine process image, state = by-value snapshot of all propka.* '
                      'globals/class attributes/logger configuration/cache sizes, until closure, plus every ordered pair of operations whatever the state hash says; schedules: all k! iteration orders of the coupled '
                      'groups of %d inputs (k <= 5; clusters default and -d, covalently coupled ligand/N-terminal systems under 5 '
                      'parameter toggles); environment: every operation in fresh interpreters with hash seeds %s, nested cwd + path input, '
                      'text-file stream, a stream the caller has already read from, host logging configured at INFO/DEBUG or disabled. non-trivial = distinct (history, operation) transitions + inputs with a coupled system + '
                      'environment runs') % (len(ops), [o['name'] for o in ops], len(orders), '0-3' if tier == 'thorough' else '0,3'),
                bounds=dict(operations=len(ops), max_coupled_groups_permuted=5), samples=[dict(history=['unknown-element', 'tripeptide-quiet'], op='ligand-cutout')])


def run_case(case, ctx, acc):
    k = case['kind']
    if k == 'order':
        run_order_case(case, ctx, acc)
    elif k == 'env':
        run_env_case(case, ctx, acc)
    elif k == 'history':
        global _OPS, _SOLO
        _OPS = operations(case.get('tier', ctx.tier))
        names = [o['name'] for o in _OPS]
        h = [names.index(x) for x in case['history']]
        i = names.index(case['op'])
        solo = fresh(_solo_worker, (i, 'stream'))
        _SOLO = {i: solo}
        res = fresh(_bfs_worker, (h, i, ctx.tier))
        acc.n += 1
        if 'error' in res:
            acc.viols.append(Viol(case, 'history', 'operation-raises-after-history/%s' % case['op'], res['error']))
        elif res['diff']:
            cause = case['history'][-1] if case['history'] else 'pristine'
            acc.viols.append(Viol(case, 'history', 'result-depends-on-history/op=%s/after=%s' % (case['op'], cause), res['diff']))


_INFO = {}


def drive(tier, seed, nproc):
    p = plan(tier, seed)
    acc = Acc()
    info = bfs(tier, nproc, acc)
    _INFO.update(info)
    agg, died = gather(__name__, p['shards'], tier, seed, nproc, agg=acc)
    if not info['closed']:
        p['exhaustive'] = False
    return p, agg, died


def finish(cov, agg, plan_):
    cov['states'] = _INFO.get('states', 1)
    cov['transitions'] = _INFO.get('transitions', 1)
    cov['traces_validated_against_impl'] = _INFO.get('transitions', 0)
    cov['bfs_closed'] = _INFO.get('closed')
    cov['bfs_depth'] = _INFO.get('depth')
    cov['state_histories'] = _INFO.get('state_histories')
    cov['what_distinguishes_states'] = _INFO.get('what_distinguishes_states')
    cov['schedules_enumerated'] = int(agg.extra.get('schedules', 0))

"""C02 - reported pKa = model pKa + listed contributions, and the written file says the same."""
import collections
import itertools
import os

from ..core import Acc, Viol, jhash
from .. import pk, gen, cmp, corpus
from . import c08

ID = 'C02'
HORIZON_S = 1800   # one case = one input under all its transformations
LEVEL = 'exploration'
LEVEL_TEXT = ('Every input of the corpus (docked pairs incl. ligands and ions, clusters, cut-outs with covalently coupled ligand '
              'groups, N-terminal Asp/Cys/His windows, multi-conformation layouts incl. chains present in later models only) is run '
              'under every scoring-relevant setting of a fixed list (default, -d, titrate-only subset, chain selection) and under all '
              '8 parameter files obtained by toggling remove_penalised_group, shared_determinants and common_charge_centre; for '
              'every group of every conformation and of the average the identity pKa = model + desolvation + RE + sum of '
              'determinants is checked to 1e-9, and the written .pka file is parsed by fixed columns and tied back to the API '
              'values: table pKa, summary pKa, desolvation columns, buried %, and the multiset of printed determinant rows.')
LEVEL_NOTE = ('The file is the one the program writes (MolecularContainer.write_pka) into a scratch directory. Printed numbers are '
              'compared at their printed precision (0.005; integers by truncation as the writer does).')
TECHNIQUE = 'exhaustive enumeration of inputs x options x parameter toggles; invariant check on every group and parse-back of the real output file'
ASSUMPTIONS = ['rows of the determinant table are matched to groups by printed label and order']

TOGGLES = ('remove_penalised_group', 'shared_determinants', 'common_charge_centre')


def cfg_variants():
    import propka
    base = os.path.join(os.path.dirname(propka.__file__), 'propka.cfg')
    with open(base) as fh:
        lines = fh.readlines()
    out = {}
    for bits in itertools.product((0, 1), repeat=3):
        new = []
        for ln in lines:
            w = ln.split()
            if w and w[0] in TOGGLES:
                ln = '%s %d\n' % (w[0], bits[TOGGLES.index(w[0])])
            new.append(ln)
        out[bits] = ''.join(new)
    return out


def inputs(tier):
    out = []
    out += [dict(src='corpus', d=d) for d in corpus.pairs(tier, kinds_a=('ASP', 'HIS', 'CYS', 'N+', 'ACT', 'PYR'),
                                                       kinds_b=('LYS', 'GLU', 'ARG', 'C-', 'TYR', 'CA', 'MAM', 'MGU', 'CYS', 'ASN'),
                                                       dists=(2.8,) if tier == 'quick' else (2.03, 2.8, 3.4, 6.0), levels=('deep',) if tier == 'quick' else ('mid', 'deep'))]
    out += [dict(src='corpus', d=d) for d in corpus.clusters(tier)[:: (1 if tier == 'thorough' else 3)]]
    out += [dict(src='corpus', d=d) for d in corpus.cutouts(tier, radius=9.0, every=(2 if tier == 'thorough' else 5))]
    # inputs with covalently coupled groups: N-terminal ASP / CYS / HIS windows, a free amino acid, the MTX and KNI ligands
    lib = gen.library()
    for key, ch, rn in (('3SGB', 'I', 'ASP'), ('3SGB', 'E', 'HIS'), ('3SGB', 'I', 'CYS'), ('1HPX', 'A', 'ASP')):
        for nth in (0, 1):
            try:
                i = lib.find(key, ch, rn, nth)
            except IndexError:
                continue
            out.append(dict(src='corpus', d=corpus.window_desc(key, ch, i, 4)))
    out.append(dict(src='corpus', d=corpus.cutout_desc('4DFR', 'A', 26, 12.0)))
    out.append(dict(src='corpus', d=corpus.cutout_desc('4DFR', 'A', 4, 12.0)))
    out.append(dict(src='corpus', d=corpus.cutout_desc('1HPX', 'A', 24, 12.0)))
    out.append(dict(src='free-aa'))
    # multi-conformation layouts (incl. a partner chain that exists in later models only)
    for lay in ([(1, 'ASP'), (2, 'ASPs')], [(1, 'ASP'), (2, 'ALA')], [(1, 'ALA'), (2, 'ASP'), (3, 'ASPs')]):
        for mask in (None, [0, 1, 1][:len(lay)], [1, 0, 1][:len(lay)]):
            out.append(dict(src='models', layout=lay, partner=mask))
    for lay in ([(' ', 'ASP'), ('B', 'ASPs')], [('A', 'ASP'), ('B', 'ALA')]):
        out.append(dict(src='alt', layout=lay))
    # buried inputs repeated as identical models: averages of Coulomb determinants
    for d in (corpus.pair_desc('ASP', 'LYS', 2.8, 'deep'), corpus.pair_desc('HIS', 'GLU', 3.0, 'deep'), corpus.pair_desc('CA', 'GLU', 2.6, 'mid'),
              corpus.cluster_desc(('ASP', 'GLU', 'LYS'), 'line', 3.0, 'deep'), corpus.cluster_desc(('GLU', 'GLU', 'HIS'), 'star', 3.0, 'mid')):
        for k in (2, 3):
            out.append(dict(src='repeat', d=d, k=k))
    # two conformations that differ in one atom position next to a covalently coupled system (the conformations may keep different
    # members of the system)
    for d, res, atom in ((corpus.cutout_desc('4DFR', 'A', 26, 12.0), 27, 'OD2'), (corpus.cutout_desc('4DFR', 'A', 26, 12.0), 27, 'OD1'),
                         (corpus.cutout_desc('4DFR', 'B', 26, 12.0), 27, 'OD2'), (corpus.window_desc('3SGB', 'I', 0, 8), 7, 'OD1'),
                         (corpus.window_desc('1HPX', 'A', 66, 8), 67, 'SG')):
        for shift in ((300, 0, 0), (0, -400, 200)):
            out.append(dict(src='altshift', d=d, res=res, atom=atom, shift=list(shift)))
    # several determinants of one group whose partners print the same label (two ions / ligand copies in one chain, residues that
    # differ only in insertion code)
    for ks in (('ASP', 'CA', 'CA'), ('GLU', 'ZN', 'MG'), ('ASP', 'ACT', 'ACT'), ('HIS', 'GLU', 'GLU'), ('GLU', 'PYR', 'PYR'), ('TYR', 'ASP', 'ASP'),
               ('LYS', 'MAM', 'MAM'), ('CYS', 'LYS', 'LYS')):
        for lv in (('deep',) if tier == 'quick' else ('mid', 'deep')):
            out.append(dict(src='samelabel', d=corpus.cluster_desc(ks, 'star', 3.0, lv)))
    # groups whose model pKa comes from the per-residue custom table (pseudo-nucleotides of C01)
    for res, nn in (('DA', 'N1'), ('DG', 'N7'), ('DC', 'N3')):
        out.append(dict(src='dna', res=res, n=nn))
    # nothing left to titrate: a disulfide alone
    out.append(dict(src='corpus', d=corpus.pair_desc('CYS', 'CYS', 2.03, 'exposed')))
    if tier == 'thorough':
        out += [dict(src='corpus', d=corpus.file_desc(k)) for k in ('3SGB', '1HPX', '4DFR')]
    return out


def build(inp, seed):
    if inp['src'] == 'corpus':
        return corpus.build(inp['d'], seed)
    if inp['src'] == 'samelabel':
        from . import c15
        return c15.build(inp, seed)
    if inp['src'] == 'altshift':
        s0 = corpus.build(inp['d'], seed)
        items = list(s0.items)
        k = next((i for i, it in enumerate(items) if not isinstance(it, str) and it.rec == 'ATOM  ' and it.resnum == inp['res'] and it.name == inp['atom']), None)
        if k is None:
            raise gen.Skip('no-such-atom')
        b = items[k].clone()
        items[k].alt, b.alt = 'A', 'B'
        b.x, b.y, b.z = b.x + inp['shift'][0], b.y + inp['shift'][1], b.z + inp['shift'][2]
        items.insert(k + 1, b)
        return gen.S(items)
    if inp['src'] == 'dna':
        from . import c01
        frag = c01.dna_fragment(inp['res'], inp['n']).translate((10000, 10000, 10000))
        pep = gen.S(c01.build_window(dict(key='3SGB', chain='I', index=20, oxt=1)))
        return gen.S(pep.items + ['TER\n'] + frag.translate((9000, 0, 0)).items).translate(gen.seed_offset(seed))
    if inp['src'] == 'repeat':
        one = corpus.build(inp['d'], seed)
        items = []
        for m in range(inp['k']):
            items += ['MODEL     %4d\n' % (m + 1)] + [i.clone() if not isinstance(i, str) else i for i in one.items] + ['ENDMDL\n']
        return gen.S(items)
    if inp['src'] == 'free-aa':
        from . import c01
        atoms = c01.add_oxt(c01.token_residue('ASP'))
        for a in atoms:
            a.chain, a.resnum = 'A', 1
        return gen.S(atoms).translate(gen.seed_offset(seed))
    if inp['src'] == 'alt':
        return c08.build(dict(kind='alt', layout=inp['layout']), seed)
    if inp['src'] == 'models':
        pre, mid, post, lys = c08.base_parts()
        items = []
        for k, (num, variant) in enumerate(inp['layout']):
            items.append('MODEL     %4d\n' % num)
            items += [a.clone() for a in pre] + c08.variant_atoms(mid, variant) + [a.clone() for a in post] + ['TER\n']
            if inp['partner'] is None or inp['partner'][k]:
                items += [a.clone() for a in lys] + ['TER\n']
            items.append('ENDMDL\n')
        return gen.S(items).translate(gen.seed_offset(seed)).renumber_serials()


def settings(s, rec0):
    """Option settings that change scoring."""
    out = [('default', ()), ('display-coupled', ('-d',))]
    chains = []
    for a in s.atoms:
        if a.chain not in chains and a.chain != 'Z':
            chains.append(a.chain)
    if len(chains) > 1:
        out.append(('chain-first', ('-c', chains[0])))
        out.append(('chain-first-twice', ('-c', chains[0], '-c', chains[0])))
        out.append(('chains-reversed', ('-c', chains[1], '-c', chains[0])))
    if chains and ' ' not in chains:
        out.append(('blank-chain-selected', ('-c', ' ')))      # run on a copy whose first chain has a blank identifier
    rep = []
    for g in rec0['confs'][rec0['conformations'][0]]['groups']:
        if g['use']:
            k = g['key'].split(':')
            if (k[0], k[1]) not in rep:
                rep.append((k[0], k[1]))
    out.append(('titrate-only-nothing', ('-i', 'Q:9999')))      # the list names no residue of the structure: nothing titrates
    if len(rep) > 1:
        out.append(('titrate-only-first', ('-i', '%s:%s' % rep[0])))
        out.append(('titrate-only-odd', ('-i', ','.join('%s:%s' % r for r in rep[::2]))))
    return out


def plan(tier, seed):
    ins = inputs(tier)
    big = [i for i in ins if i.get('d', {}).get('t') == 'file']
    small = [i for i in ins if i not in big]
    shards = [small[i:i + 4] for i in range(0, len(small), 4)] + [[b] for b in big]
    return dict(shards=shards, exhaustive=True,
                rule=('inputs: docked pairs (6x10 kinds), clusters, 9 A cut-outs, windows starting with ASP/HIS/CYS, MTX/KNI cut-outs, a free '
                      'amino acid, MODEL/alt-loc layouts (partner chain present in all / later models only); settings: default, -d, first '
                      'chain (once, twice, chains in reverse order, blank chain id selected with a space), two titrate-only lists and one that names nothing; parameter files: all 8 toggles of %s under the default setting plus -d. non-trivial '
                      '= distinct (input, setting, parameter file) whose result has at least one determinant') % (TOGGLES,),
                bounds=dict(inputs=len(ins), parameter_files=8), samples=[ins[0], ins[-1]])


def check_sum(rec, tol=1e-9):
    v = []
    for name in rec['conformations'] + ['AVR']:
        for g in rec['confs'][name]['groups']:
            if g['bridge']:
                if abs(g['pka'] - 99.99) > 1e-9:
                    v.append(('bridged-cys-not-99.99', '%s %s pka %r' % (name, g['key'], g['pka'])))
                continue
            total = g['model_pka'] + g['energy_volume'] + g['energy_local'] + sum(x[2] for t in pk.DET_TYPES for x in g['dets'][t])
            if not cmp.close(g['pka'], total, tol):
                v.append(('pka-not-sum-of-contributions/%s' % ('avr' if name == 'AVR' else 'conf'),
                          '%s %s: pka %r but model+desolvation+determinants = %r' % (name, g['key'], g['pka'], total)))
    return v


def check_text(mol, rec, text, params, cname='AVR'):
    v = []
    p = pk.parse_pka(text)
    groups = mol.conformations[cname].groups
    hidden = params.remove_penalised_group
    shown = [g for g in groups if not (g.coupled_titrating_group and hidden)]
    # summary
    sum_rows = collections.defaultdict(list)
    for r in p['summary']:
        sum_rows[r['label']].append(r)
    tab_rows = collections.defaultdict(list)
    for r in p['det']:
        tab_rows[r['label']].append(r)
    order = {t: i for i, t in enumerate(params.write_out_order)}
    for g in shown:
        if g.residue_type not in order:
            continue
        srow = sum_rows[g.label].pop(0) if sum_rows[g.label] else None
        trow = tab_rows[g.label].pop(0) if tab_rows[g.label] else None
        if srow is None:
            v.append(('summary-row-missing', 'no summary row for %r' % g.label))
        elif abs(srow['pka'] - g.pka_value) > 0.00501 or abs(srow['model'] - g.model_pka) > 0.00501:
            v.append(('summary-value-differs', '%r summary pKa %.2f model %.2f, API %r %r' % (g.label, srow['pka'], srow['model'], g.pka_value, g.model_pka)))
        if trow is None:
            v.append(('determinant-table-row-missing', 'no determinant-table row for %r (chain %s, chains of %s %s)' % (
                g.label, g.atom.chain_id, cname, mol.conformations[cname].chains)))
            continue
        if abs(trow['pka'] - g.pka_value) > 0.00501:
            v.append(('table-pka-differs', '%r table pKa %.2f API %r' % (g.label, trow['pka'], g.pka_value)))
        if srow is not None and abs(trow['pka'] - srow['pka']) > 1e-9:
            v.append(('table-vs-summary-pka', '%r table %.2f summary %.2f' % (g.label, trow['pka'], srow['pka'])))
        if trow['buried'] != int(100.0 * g.buried) or trow['nvol'] != int(g.num_volume) or trow['nloc'] != int(g.num_local):
            v.append(('table-counts-differ', '%r buried %d nvol %d nloc %d, API %r %r %r' % (g.label, trow['buried'], trow['nvol'], trow['nloc'],
                                                                                         g.buried, g.num_volume, g.num_local)))
        if abs(trow['evol'] - g.energy_volume) > 0.00501 or abs(trow['eloc'] - g.energy_local) > 0.00501:
            v.append(('table-desolvation-differs', '%r evol %.2f eloc %.2f, API %r %r' % (g.label, trow['evol'], trow['eloc'], g.energy_volume, g.energy_local)))
        for t in pk.DET_TYPES:
            want = sorted((round(d.value, 6), d.label) for d in g.determinants[t])
            got = sorted(trow[t])
            if len(want) != len(got):
                v.append(('table-determinant-rows/%s/count' % t, '%r prints %d %s rows, group has %d' % (g.label, len(got), t, len(want))))
                continue
            gl = sorted(lab for _, lab in got)
            wl = sorted(lab for _, lab in want)
            if gl != wl:
                v.append(('table-determinant-rows/%s/partners' % t, '%r prints partners %s, group has %s' % (g.label, gl, wl)))
                continue
            for lab in set(wl):
                a = sorted(x for x, l in got if l == lab)
                b = sorted(x for x, l in want if l == lab)
                if any(abs(x - y) > 0.00501 for x, y in zip(a, b)):
                    v.append(('table-determinant-rows/%s/values' % t, '%r partner %r prints %s, group has %s' % (g.label, lab, a, b)))
        star = len(g.non_covalently_coupled_groups) > 0
        if trow['star'] != star:
            v.append(('table-star', '%r star %s partners %d' % (g.label, trow['star'], len(g.non_covalently_coupled_groups))))
    for lab, rows in tab_rows.items():
        if rows and lab[:3].strip() in order:
            v.append(('determinant-table-row-spurious', 'table has %d unexpected rows %r' % (len(rows), lab)))
    return v


def run_case(case, ctx, acc):
    s = build(case, ctx.seed)
    text = gen.to_text(s)
    cfgs = cfg_variants()
    rec0 = pk.record(pk.run(text))
    jobs = [(sname, opts, (1, 0, 0)) for sname, opts in settings(s, rec0)]
    for bits in cfgs:
        if bits != (1, 0, 0):
            jobs.append(('default', (), bits))
            jobs.append(('display-coupled', ('-d',), bits))
    jobs.append(('custom-model-pkas', (), 'custom'))
    written = {}
    for sname, opts, bits in jobs:
        if bits == 'custom':     # a parameter file that gives some residue-atom keys a model pKa of their own
            path = os.path.abspath('cfg_custom.cfg')
            with open(path, 'w') as fh:
                fh.write(cfgs[(1, 0, 0)] + '\ncustom_model_pkas ASP-CG 4.00\ncustom_model_pkas LYS-NZ 9.75\ncustom_model_pkas HIS-CG 7.25\ncustom_model_pkas GLU-CD 4.10\n')
            written[bits] = path
            bits_t = (1, 0, 0)
        if bits not in written:
            path = os.path.abspath('cfg_%d%d%d.cfg' % bits)
            with open(path, 'w') as fh:
                fh.write(cfgs[bits])
            written[bits] = path
        o = tuple(opts) + (() if bits == (1, 0, 0) else ('-p', written[bits]))
        if bits == 'custom':
            o = tuple(opts) + ('-p', written[bits])
            bits = (9, 9, 9)
        sub = dict(case, setting=sname, cfg=list(bits))
        if sname == 'blank-chain-selected':
            first = [a.chain for a in s.atoms if a.chain != 'Z'][0]
            s2 = s.copy()
            for a in s2.atoms:
                if a.chain == first:
                    a.chain = ' '
            mol = pk.run(gen.to_text(s2), o, write=True)
        else:
            mol = pk.run(text, o, write=True)
        rec = pk.record(mol)
        nt = any(any(g['dets'][t] for t in g['dets']) for g in rec['confs']['AVR']['groups'])
        acc.case(nontrivial_key=jhash(sub) if nt else None, outcome='%s/%d%d%d' % ((sname,) + tuple(bits)))
        v = check_sum(rec) + check_text(mol, rec, mol._pka_text, mol.version.parameters)
        if len(rec['conformations']) > 1 and sname in ('default', 'display-coupled'):
            # the file the program writes for one single conformation describes that conformation
            from . import c09
            for cname in rec['conformations']:
                v += [(ck + '/single-conformation-file', what) for ck, what in
                      check_text(mol, rec, c09.conf_text(mol, cname), mol.version.parameters, cname=cname)]
        feats = []
        if any(g['cov_coupled'] for g in rec['confs'][rec['conformations'][0]]['groups']):
            feats.append('covalently-coupled')
        tag = 'cfg=%d%d%d' % tuple(bits)
        seen = set()
        for ck, what in v:
            ck = '%s/%s/%s%s' % (ck, sname, tag, '/' + '+'.join(feats) if feats else '')
            if ck not in seen:
                seen.add(ck)
                acc.viols.append(Viol(sub, 'sum+text', ck, what, inputs=dict(pdb=text if sname != 'blank-chain-selected' else gen.to_text(s2), opts=list(opts), cfg_toggles=dict(zip(TOGGLES, bits)))))

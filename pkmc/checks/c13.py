"""C13 - selecting chains equals deleting the other chains from the file."""
import itertools

from ..core import Acc, Viol, jhash
from .. import pk, gen, cmp, corpus
from . import c01

ID = 'C13'
HORIZON_S = 1800   # one case = one input under all its transformations
LEVEL = 'exploration'
LEVEL_TEXT = ('For every multi-chain input of the corpus (record streams with chain changes with/without TER, blank chain ids '
              'and re-used ids; docked pairs and clusters with a burial chain; multi-chain cut-outs; whole multi-chain files '
              'with hetero groups) and every non-empty proper subset of its chain ids, the real program is run once with -c and '
              'once without the option on the literal file from which the other chains\' ATOM/HETATM records were deleted; '
              'the complete observation records and the written .pka text (date line removed) must be identical, also when '
              'titrate-only lists (inside / outside / across the selection), -d or -k are given to both runs.')
LEVEL_NOTE = 'Differential oracle: no reference values are needed. Inputs with more than 4 chains use single chains and complements only.'
TECHNIQUE = 'exhaustive enumeration of chain subsets over a bounded input corpus; differential (metamorphic) comparison of two real executions'
ASSUMPTIONS = ['records other than ATOM/HETATM are left in place when chains are deleted']


def inputs(tier):
    out = []
    # record streams from the C01 alphabet that contain at least two chain ids
    for c in c01.stream_cases('quick'):
        toks = c['tokens']
        if any(t[2] != 'same' for t in toks[1:]) and c['dev'] <= (2 if tier == 'quick' else 3):
            if tier == 'quick' and jhash(c, 2) not in ('00', '40', '80', 'c0', '20', '60', 'a0', 'e0'):
                continue   # deterministic 1/32 thinning of an already enumerated space (full in thorough)
            out.append(dict(src='stream', d=c))
    for d in corpus.pairs(tier, kinds_a=('ASP', 'HIS', 'N+', 'ACT'), kinds_b=('LYS', 'GLU', 'C-', 'CA', 'MAM', 'CYS'))[:: (1 if tier == 'thorough' else 1)]:
        out.append(dict(src='corpus', d=d))
    for d in corpus.clusters(tier)[:: (1 if tier == 'thorough' else 4)]:
        out.append(dict(src='corpus', d=d))
    for d in corpus.cutouts(tier, radius=12.0):
        out.append(dict(src='corpus', d=d))
    out += [dict(i, chains='case-twins') for i in out if i['src'] == 'corpus' and i['d']['t'] in ('pair', 'cluster')][:: (1 if tier == 'thorough' else 3)]
    # a chain called '_' next to a chain without identifier (which the program itself prints as '_')
    out += [dict(i, chains='underscore-and-blank') for i in out if i['src'] == 'corpus' and i['d']['t'] in ('pair', 'cluster') and 'chains' not in i][:: (2 if tier == 'thorough' else 6)]
    for key in (('3SGB', '1HPX') if tier == 'quick' else ('3SGB', '1HPX', '4DFR')):
        out.append(dict(src='corpus', d=corpus.file_desc(key)))
    # multi-conformation inputs (the selected chain is completed from the other conformations)
    for d in (dict(kind='alt', layout=[['A', 'ASP'], ['B', 'ASPs']], lys=[['B', 'LYSs'], ['C', 'LYS']]), dict(kind='alt', layout=[['A', 'ASP'], ['B', 'ALA']]),
              dict(kind='model', layout=[[1, 'ASP'], [2, 'ASPnoCG'], [3, 'absent']]), dict(kind='model', layout=[[1, 'ASP'], [2, 'ASPs']], noter=True)):
        out.append(dict(src='c08', d=d))
    return out


def build(inp, seed):
    if inp['src'] == 'stream':
        items = c01.build_stream(inp['d'], seed)
        s = None if items is None else gen.S(items)
    elif inp['src'] == 'c08':
        from . import c08
        d = dict(inp['d'], layout=[tuple(x) for x in inp['d']['layout']])
        if d.get('lys'):
            d['lys'] = [tuple(x) for x in d['lys']]
        s = c08.build(d, seed)
    else:
        s = corpus.build(inp['d'], seed)
    if s is not None and inp.get('chains') == 'case-twins':
        # chain ids that differ only in case (A, a, B, b ...)
        ids = []
        for a in s.atoms:
            if a.chain not in ids:
                ids.append(a.chain)
        m = dict(zip(ids, 'AaBbCcDdEeFfGg'))
        for a in s.atoms:
            a.chain = m[a.chain]
    if s is not None and inp.get('chains') == 'underscore-and-blank':
        ids = []
        for a in s.atoms:
            if a.chain not in ids:
                ids.append(a.chain)
        m = dict(zip(ids, '_ QRSTUVWXYZ'))
        for a in s.atoms:
            a.chain = m[a.chain]
    return s


def plan(tier, seed):
    ins = inputs(tier)
    big = [i for i in ins if i['d'].get('t') == 'file']
    small = [i for i in ins if i['d'].get('t') != 'file']
    shards = [small[i:i + 8] for i in range(0, len(small), 8)] + [[b] for b in big]
    shards += [[dict(src='main', order=list(o), sel=list(sel))] for o in ((0, 1, 2), (2, 0, 1)) for sel in (('A',), ('B',), ('B', 'A'))]
    return dict(shards=shards, exhaustive=True,
                rule=('inputs: C01 record streams with a chain change (quick: a fixed 1/32 sub-enumeration; thorough: all up to 3 '
                      'deviations), docked pairs (4x6 kinds), clusters, 12 A cut-outs around titratable residues of 4 proteins, whole '
                      'multi-chain files; selections: every non-empty proper subset of the chain ids (inputs with > 4 chains: '
                      'singletons and their complements), each given in both flag orders for 2-subsets; for corpus inputs every selection is '
                      'also run together with -i (first residue of a selected chain / of a deleted chain / both), -d and -k on both '
                      'sides; unparsable records in an unselected chain; segment-identifier text next to blank chain ids; residue names that fill column 21; propka.run.main on three files with one selection. non-trivial = distinct '
                      '(input, selection) whose selected part contains at least one group'),
                bounds=dict(inputs=len(ins)), samples=[ins[0], ins[-1]])


def selections(chains):
    chains = list(chains)
    out = []
    if len(chains) <= 4:
        for k in range(1, len(chains)):
            for sub in itertools.combinations(chains, k):
                out.append(list(sub))
                if k == 2:
                    out.append(list(sub[::-1]))
    else:
        for c in chains:
            out.append([c])
            out.append([x for x in chains if x != c])
    return out


def co_options(s, sel, case, tier):
    """Other options given to both runs: the equivalence is claimed whatever else is on the command line.  Titrate-only lists
    naming (a) only residues of selected chains, (b) only residues of deleted chains, (c) both; coupled display; keep-protons."""
    out = [()]
    if case['src'] not in ('corpus', 'c08') or case['d'].get('t') == 'file' and tier == 'quick':
        return out
    first = {}
    for a in s.atoms:
        if a.chain.strip() and a.rec == 'ATOM  ':
            first.setdefault(a.chain, (a.chain, a.resnum, a.icode))
    inside = [first[c] for c in sel if c in first][:1]
    outside = [first[c] for c in first if c not in sel][:1]
    arg = lambda keys: ','.join('%s:%d%s' % (c, n, i.strip()) for c, n, i in keys)
    if inside:
        out.append(('-i', arg(inside)))
    if outside:
        out.append(('-i', arg(outside)))
    if inside and outside:
        out.append(('-i', arg(outside + inside)))
    out += [('-d',), ('-k',)]
    return out


def main_files(case, ctx, acc):
    """propka.run.main with three two-chain structures and one -c selection: every written .pka file equals the one written for
    the literal file without the other chain."""
    import io
    import os
    import sys
    import propka.run
    descs = [corpus.pair_desc('ASP', 'LYS', 2.8, 'exposed'), corpus.pair_desc('HIS', 'GLU', 3.0, 'exposed'), corpus.pair_desc('TYR', 'ARG', 3.0, 'exposed')]
    order = case['order']
    structs = [corpus.build(descs[i], ctx.seed) for i in order]
    names = ['m%d_%d.pdb' % (k, i) for k, i in enumerate(order)]
    for nm, st in zip(names, structs):
        with open(nm, 'w') as fh:
            fh.write(gen.to_text(st))
    argv = ['propka3', names[-1]]
    for nm in names[:-1]:
        argv += ['-f', nm]
    for c in case['sel']:
        argv += ['-c', c]
    old, saved = sys.argv, sys.stdout
    sys.argv, sys.stdout = argv + ['-q'], io.StringIO()
    try:
        propka.run.main()
    finally:
        sys.argv, sys.stdout = old, saved
    acc.case(nontrivial_key=jhash(case), outcome='main-files')
    for nm, st in zip(names, structs):
        with open(nm[:-4] + '.pka') as fh:
            got = [ln for ln in fh.read().splitlines() if not ln.startswith('propka')]
        os.unlink(nm[:-4] + '.pka')
        deleted = gen.to_text([i for i in st.items if isinstance(i, str) or i.chain in case['sel']])
        ref = pk.run(deleted, (), name=nm, write=True)
        want = [ln for ln in ref._pka_text.splitlines() if not ln.startswith('propka')]
        if got != want:
            diff = next(((a, b) for a, b in zip(got, want) if a != b), (len(got), len(want)))
            acc.viols.append(Viol(case, 'chain-select', 'selection-differs-from-deletion/main-several-files',
                                  '%s written by main -c %s differs from the file for the deleted input: %r' % (nm, case['sel'], diff),
                                  inputs=dict(argv=argv)))
            break


def run_case(case, ctx, acc):
    if case.get('src') == 'main':
        return main_files(case, ctx, acc)
    s = build(case, ctx.seed)
    if s is None:
        acc.skipped += 1
        return
    chains = []
    for a in s.atoms:
        if a.chain not in chains:
            chains.append(a.chain)
    if len(chains) < 2:
        acc.skipped += 1
        return
    text = gen.to_text(s)
    jobs = [(sel, co, None) for sel in selections(chains) for co in co_options(s, sel, case, ctx.tier)]
    # records of an unselected chain that cannot be parsed (hybrid-36 residue number, overflowed coordinates, cut short): they are not
    # part of the selection, and the file without them is fine
    for sel in selections(chains)[:4]:
        other = [c for c in chains if c not in sel]
        if other and other[0].strip():
            jobs.append((sel, (), 'unreadable-records-in-unselected-chain'))
    # text in the segment-identifier columns 73-76 (also one that starts with the id of another chain) next to blank chain ids
    if ' ' in chains:
        for sel in selections(chains)[:6]:
            jobs.append((sel, (), 'segid-PROA'))
            jobs.append((sel, (), 'segid-of-other-chain'))
    # residue names that fill column 21 as well (four-character names of simulation packages: TIP3, POPC, MTX1): the column
    # next to the chain id is not part of it
    for sel in selections(chains)[:4]:
        jobs.append((sel, (), 'resname-4-characters'))
    for sel, co, special in jobs:
        opts = list(co)
        for c in sel:
            opts += ['-c', c]
        text_c, items_c = text, s.items
        if special == 'unreadable-records-in-unselected-chain':
            oc = [c for c in chains if c not in sel][0]
            bad = ['ATOM   9001  CA  ALA %sA000     ********   0.000   0.000  1.00  0.00           C\n' % oc,
                   'ATOM   9002  CB  ALA %s 900       1.000\n' % oc, 'HETATM 9003 ZN    ZN %s 901     ' % oc + 'x' * 24 + '  1.00  0.00          ZN\n']
            text_c = text + ''.join(bad)
        elif special and special.startswith('segid'):
            nonblank = [c for c in chains if c.strip()]
            seg = 'PROA' if special == 'segid-PROA' else ((nonblank[0] if nonblank else 'Q') + '2  ')
            items_c = []
            for it in s.items:
                if not isinstance(it, str):
                    it = it.clone()
                    it.tail = (it.tail.ljust(14))[:6] + seg + (it.tail.ljust(14))[10:]
                items_c.append(it)
            text_c = gen.to_text(items_c)
        deleted = gen.to_text([i for i in items_c if isinstance(i, str) or i.chain in sel])
        if special == 'resname-4-characters':
            fill = lambda t: ''.join((ln[:20] + '1' + ln[21:]) if ln[:6] in ('ATOM  ', 'HETATM') and len(ln) > 21 else ln for ln in t.splitlines(True))    # noqa: E731
            text_c, deleted = fill(text_c), fill(deleted)
        sub = dict(case, sel=sel, co=list(co), special=special)
        try:
            m1 = pk.run(text_c, opts, write=True)
            r1 = pk.record(m1, text=m1._pka_text)
            e1 = None
        except ValueError as exc:
            r1, e1 = None, str(exc)[:60]
        try:
            m2 = pk.run(deleted, co, write=True)
            r2 = pk.record(m2, text=m2._pka_text)
            e2 = None
        except ValueError as exc:
            r2, e2 = None, str(exc)[:60]
        acc.n += 1
        if r1 is None or r2 is None:
            if (r1 is None) != (r2 is None):
                acc.viols.append(Viol(sub, 'chain-select', 'rejection-differs', 'with -c: %r, deleted file: %r' % (e1, e2),
                                      inputs=dict(pdb=text_c, opts=opts, deleted=deleted)))
            acc.outcomes['rejected'] += 1
            continue
        ng = sum(1 for g in r2['confs']['AVR']['groups'])
        if ng:
            acc.nontrivial.add(jhash(sub))
        acc.outcomes['groups=%d' % min(ng, 9)] += 1
        d = cmp.diff_records(r1, r2, tol=0.0)
        if d:
            acc.viols.append(Viol(sub, 'chain-select', 'selection-differs-from-deletion/%s' % d[0][0],
                                  '-c %s %s %s: first difference %s' % (sel, ' '.join(co), special or '', str(d[0])[:300]), detail=[str(x)[:200] for x in d[:5]],
                                  inputs=dict(pdb=text_c, opts=opts, deleted=deleted)))

"""C15 - coupling analysis observes without disturbing."""
from ..core import Acc, Viol, jhash
from .. import pk, gen, cmp, corpus
import propka.output

ID = 'C15'
HORIZON_S = 1800   # one case = one input under all its transformations
LEVEL = 'exploration'
LEVEL_TEXT = ('Every input of the corpus (all 3-group clusters over the titratable kinds in two layouts and three burial levels, '
              'docked acid-acid / base-base / acid-base pairs at contact distances, cut-outs around every titratable residue of the '
              'reference proteins) is run twice through the real program - with the coupling analysis and with it switched off '
              '(NCCG.do_prot_stat = False) - and every pKa and determinant is compared (1e-9, determinants as multisets); the '
              'coupling relation is checked for symmetry, and every conformation and the average are rendered with the real '
              'get_determinant_section and parsed: a row is starred iff the group has a coupled partner.')
LEVEL_NOTE = ('Differential oracle between two real executions of the same input. Coupled systems of more than four groups occur '
              'only in the cut-outs.')
TECHNIQUE = 'exhaustive enumeration of small interacting clusters; differential comparison of real executions with the analysis on and off'
ASSUMPTIONS = ['NonCovalentlyCoupledGroups.do_prot_stat = False is the faithful "analysis off" reference run']


def inputs(tier):
    out = [dict(src='corpus', d=d) for d in corpus.clusters(tier)]
    acids = ('ASP', 'GLU', 'CYS', 'TYR', 'C-', 'ACT')
    bases = ('HIS', 'LYS', 'ARG', 'N+', 'PYR', 'MAM')
    ds = (2.8, 3.4) if tier == 'quick' else (2.6, 2.8, 3.0, 3.4, 4.0)
    lv = ('mid', 'deep') if tier == 'quick' else ('exposed', 'mid', 'deep')
    for ka, kb in [(a, b) for a in acids for b in acids] + [(a, b) for a in bases for b in bases] + [(a, b) for a in acids[:3] for b in bases[:3]]:
        out += [dict(src='corpus', d=corpus.pair_desc(ka, kb, d, l)) for d in ds for l in lv]
    out += [dict(src='corpus', d=d) for d in corpus.cutouts(tier, radius=10.0, every=(1 if tier == 'thorough' else 3))]
    # partners that print the same label (two ligand copies in one chain; residues differing only in insertion code):
    # several determinants of one group then carry the partner's label
    for ks in (('ASP', 'ACT', 'ACT'), ('GLU', 'GLU', 'GLU'), ('ASP', 'ASP', 'ASP'), ('HIS', 'GLU', 'GLU'), ('GLU', 'PYR', 'PYR'), ('CYS', 'CYS', 'CYS'),
               ('TYR', 'ASP', 'ASP'), ('LYS', 'MAM', 'MAM')):
        for lv in ('mid', 'deep'):
            out.append(dict(src='samelabel', d=corpus.cluster_desc(ks, 'star', 3.0, lv)))
    # a group that is penalised by covalent coupling (N-terminal Asp) and is also half of a non-covalently coupled pair
    for tb in ([['B', 25]], [['A', 25]], [['A', 25], ['B', 25]]):
        d = corpus.cutout_desc('1HPX', 'A', 24, 12.0)
        d['ter_before'] = tb
        out.append(dict(src='corpus', d=d))
    # options that are not 'display alternative states' must leave the analysis read-only as well
    coupled_inputs = [dict(src='corpus', d=corpus.cutout_desc('1HPX', 'A', 24, 12.0)), dict(src='corpus', d=corpus.pair_desc('GLU', 'GLU', 2.8, 'deep')),
                      dict(src='corpus', d=corpus.pair_desc('ASP', 'ASP', 2.8, 'mid')), dict(src='corpus', d=corpus.cluster_desc(('GLU', 'GLU', 'HIS'), 'star', 3.0, 'mid')),
                      dict(src='corpus', d=corpus.cluster_desc(('ASP', 'GLU', 'GLU'), 'line', 3.0, 'deep'))]
    for ci in coupled_inputs:
        for o in OPTION_SETS[1:]:
            out.append(dict(ci, opts=list(o)))
    # parameter files that move each threshold of the analysis (every early exit must leave the groups as it found them)
    cfg_inputs = coupled_inputs + [dict(src='corpus', d=corpus.pair_desc(a, b, 2.8, 'deep')) for a, b in
                                   (('GLU', 'ASP'), ('TYR', 'CYS'), ('HIS', 'HIS'), ('LYS', 'ARG'), ('ASP', 'ACT'), ('GLU', 'HIS'))]
    for ci in cfg_inputs:
        for name in sorted(CFG_EDITS):
            out.append(dict(ci, cfg=name))
    # covalently penalised groups whose rows are printed (remove_penalised_group 0): starred only if non-covalently coupled
    for tb in ([['B', 25]], [['A', 25], ['B', 25]]):
        d = corpus.cutout_desc('1HPX', 'A', 24, 12.0)
        d['ter_before'] = tb
        out.append(dict(src='corpus', d=d, cfg='keep-penalised'))
    out.append(dict(src='corpus', d=corpus.window_desc('3SGB', 'I', 0, 10), cfg='keep-penalised'))
    out.append(dict(src='corpus', d=corpus.cutout_desc('4DFR', 'A', 26, 10.0), cfg='keep-penalised'))
    # coupled pairs of different type (carboxylate ligand / histidine / tyrosine partners) under output orders that give one of the
    # two no row
    for a, b in (('GLU', 'ACT'), ('ASP', 'ACT'), ('GLU', 'HIS'), ('TYR', 'CYS'), ('HIS', 'HIS')):
        for name in ('no-rows=OCO', 'no-rows=HIS+TYR', 'no-rows=ASP+GLU'):
            out.append(dict(src='corpus', d=corpus.pair_desc(a, b, 2.8, 'deep'), cfg=name))
    # several conformations, the pair coupled in a later one only (the partner is moved away in the first model)
    for a, b in (('GLU', 'GLU'), ('ASP', 'ASP'), ('GLU', 'HIS'), ('TYR', 'CYS'), ('ASP', 'GLU')):
        for lvl in ('mid', 'deep'):
            for order in ('apart-first', 'apart-second'):
                out.append(dict(src='models-coupled', d=corpus.pair_desc(a, b, 2.8, lvl), order=order))
    # the request for alternative states in an earlier calculation of the same process must not carry over
    for ci in coupled_inputs:
        for pj in (0, 2):
            out.append(dict(ci, prior=pj))
    if tier == 'thorough':
        out += [dict(src='corpus', d=corpus.file_desc(k)) for k in ('3SGB', '1HPX')]
    return out


CFG_EDITS = {'min_pka=4': {'min_pka': '4.0'}, 'min_pka=8': {'min_pka': '8.0'}, 'max_pka=3': {'max_pka': '3.0'}, 'max_pka=6': {'max_pka': '6.0'},
             'min_interaction=0': {'min_interaction_energy': '0.0'}, 'min_interaction=2': {'min_interaction_energy': '2.0'},
             'max_free_energy_diff=0.1': {'max_free_energy_diff': '0.1'}, 'max_free_energy_diff=9': {'max_free_energy_diff': '9.0'},
             'min_swap_pka_shift=0': {'min_swap_pka_shift': '0.0'}, 'min_swap_pka_shift=4': {'min_swap_pka_shift': '4.0'},
             'max_intrinsic_pka_diff=0.3': {'max_intrinsic_pka_diff': '0.3'}, 'max_intrinsic_pka_diff=9': {'max_intrinsic_pka_diff': '9.0'},
             'reference=low-pH': {'reference': 'low-pH'}, 'keep-penalised': {'remove_penalised_group': '0'},
             'no-rows=OCO': {'-write_out_order': ['OCO']}, 'no-rows=HIS+TYR': {'-write_out_order': ['HIS', 'TYR']}, 'no-rows=ASP+GLU': {'-write_out_order': ['ASP', 'GLU']},
             'exclude=ASP': {'+exclude_sidechain_interactions': ['ASP']}, 'exclude=GLU+HIS': {'+exclude_sidechain_interactions': ['GLU', 'HIS']},
             'exclude=TYR+LYS+ARG+CYS': {'+exclude_sidechain_interactions': ['TYR', 'LYS', 'ARG', 'CYS']},
             'all-open': {'min_pka': '-20.0', 'max_pka': '30.0', 'min_interaction_energy': '0.0', 'max_free_energy_diff': '99.0',
                          'min_swap_pka_shift': '0.0', 'max_intrinsic_pka_diff': '99.0'}}


for _k in range(0, 29):     # a grid of window limits: some value separates the default from the swapped state of every coupled pair
    CFG_EDITS.setdefault('min_pka=%g' % (_k * 0.5), {'min_pka': '%g' % (_k * 0.5)})
    CFG_EDITS.setdefault('max_pka=%g' % (_k * 0.5), {'max_pka': '%g' % (_k * 0.5)})


def cfg_opts(case):
    name = case.get('cfg')
    if not name:
        return ()
    import os
    from . import c02
    path = os.path.abspath('c15_%s.cfg' % name.replace('=', '_').replace('+', '_'))
    if not os.path.exists(path):
        lines = []
        drop = {k_[1:]: v_ for k_, v_ in CFG_EDITS[name].items() if k_.startswith('-')}
        for ln in c02.cfg_variants()[(1, 0, 0)].splitlines(True):
            w = ln.split()
            if w and w[0] in drop and w[1:2] and w[1] in drop[w[0]]:
                continue      # one entry of a list keyword removed
            if w and w[0] in CFG_EDITS[name]:
                ln = '%s %s\n' % (w[0], CFG_EDITS[name][w[0]])
            lines.append(ln)
        for key, vals in CFG_EDITS[name].items():
            if key.startswith('+'):
                lines += ['%s %s\n' % (key[1:], x) for x in vals]
        with open(path, 'w') as fh:
            fh.write(''.join(lines))
    return ('-p', path)


def build(inp, seed):
    s = corpus.build(inp['d'], seed)
    if inp['src'] == 'models-coupled':
        def moved(items):
            out = []
            for it in items:
                if not isinstance(it, str) and it.chain == 'B':
                    it = it.clone()
                    it.x, it.y, it.z = it.x + 2500, it.y + 2000, it.z + 1500
                out.append(it if isinstance(it, str) else it.clone())
            return out
        same = [i.clone() if not isinstance(i, str) else i for i in s.items]
        m1, m2 = (moved(s.items), same) if inp['order'] == 'apart-first' else (same, moved(s.items))
        return gen.S(['MODEL        1\n'] + m1 + ['ENDMDL\n', 'MODEL        2\n'] + m2 + ['ENDMDL\n']).renumber_serials()
    if inp['src'] == 'samelabel':
        # parts 2 and 3 (chains B and C) get the same chain id; protein fragments also the same numbers, told apart by an insertion code
        for a in s.atoms:
            if a.chain == 'C':
                a.chain = 'B'
                if a.rec == 'ATOM  ':
                    a.resnum -= 10
                    a.icode = 'A'
    return s


def plan(tier, seed):
    ins = inputs(tier)
    small = [i for i in ins if i['d']['t'] != 'file']
    shards = [small[i:i + 10] for i in range(0, len(small), 10)] + [[i] for i in ins if i['d']['t'] == 'file']
    return dict(shards=shards, exhaustive=True,
                rule=('inputs: every multiset of 3 kinds (quick: 6 kinds; thorough: 12 kinds, 2 layouts, 3 burial levels), all ordered '
                      'acid-acid and base-base pairs of 6 kinds and 9 acid-base pairs at contact distances and burial levels, 10 A cut-outs '
                      'around titratable residues (quick: every third); 11 coupled inputs under 68 parameter files that move each threshold of '
                      'the analysis, and after an earlier -d calculation in the same process (min/max pKa on a 0.5 grid from 0 to 14, interaction energy, free-energy difference, swap shift, intrinsic pKa difference, reference). non-trivial = distinct inputs in which the analysis marks at least '
                      'one coupled pair; the number of inputs in which at least one swap is evaluated is reported separately'),
                bounds=dict(inputs=len(ins)), samples=[ins[0], ins[-1]])


OPTION_SETS = ((), ('--log-level', 'DEBUG'), ('-q',), ('--protonate-all',), ('-o', '4.0'), ('-r', 'low-pH'))


def run_case(case, ctx, acc):
    s = build(case, ctx.seed)
    text = gen.to_text(s)
    opts = tuple(case.get('opts', ())) + cfg_opts(case)
    try:
        pk.seam_coupling_analysis(True)
        if case.get('prior') is not None:
            prior = [corpus.pair_desc('GLU', 'GLU', 2.8, 'deep'), corpus.cutout_desc('1HPX', 'A', 24, 12.0), corpus.pair_desc('ASP', 'ASP', 2.8, 'mid')][case['prior']]
            pk.run(gen.to_text(corpus.build(prior, ctx.seed)), ('-d',))
        m_on = pk.run(text, opts)
        r_on = pk.record(m_on)
        pk.seam_coupling_analysis(False)
        m_off = pk.run(text, cfg_opts(case))
        r_off = pk.record(m_off)
    finally:
        pk.seam_coupling_analysis(True)
        import logging
        logging.getLogger('propka.lib').setLevel(logging.NOTSET)
    coupled = sum(1 for c in r_on['conformations'] for g in r_on['confs'][c]['groups'] if g['coupled'])
    acc.case(nontrivial_key=jhash(case) if coupled else None, outcome='coupled=%d' % min(coupled, 6))
    v = []
    # (1) values undisturbed
    for name in r_on['conformations'] + ['AVR']:
        for ga, gb in zip(r_on['confs'][name]['groups'], r_off['confs'][name]['groups']):
            ga2 = dict(ga, coupled=[])
            d = cmp.diff_groups(ga2, dict(gb, coupled=[]), tol=1e-9)
            if d:
                v.append(('analysis-disturbs/%s' % d[0][0], '%s %s: %s' % (name, ga['key'], str(d[0])[:250])))
                break
            # labels of determinants restored
            la = sorted((t, lab) for t in pk.DET_TYPES for _, lab, _ in ga['dets'][t])
            lb = sorted((t, lab) for t in pk.DET_TYPES for _, lab, _ in gb['dets'][t])
            if la != lb:
                v.append(('analysis-disturbs/determinant-labels', '%s %s: %s vs %s' % (name, ga['key'], la[:4], lb[:4])))
                break
    # (2) symmetry
    for name in r_on['conformations']:
        by = {g['key']: g for g in r_on['confs'][name]['groups']}
        for g in r_on['confs'][name]['groups']:
            for p in g['coupled']:
                if p in by and g['key'] not in by[p]['coupled']:
                    v.append(('coupling-asymmetric', '%s: %s lists %s but not vice versa' % (name, g['key'], p)))
    # (2b) the partners of a group are groups of its own conformation (object identity, not label)
    for name in m_on.conformation_names:
        own = {id(g) for g in m_on.conformations[name].groups}
        for g in m_on.conformations[name].groups:
            for p_ in g.non_covalently_coupled_groups:
                if id(p_) not in own:
                    v.append(('coupled-partner-of-another-conformation', '%s: %s lists %s, which is not a group of this conformation' % (name, g.label, p_.label)))
    # (3) stars
    params = m_on.version.parameters
    for name in r_on['conformations'] + ['AVR']:
        section = propka.output.get_determinant_section(m_on, name, params)
        parsed = pk.parse_pka(section + '\n' + '-' * 104 + '\n')
        want = {}
        for g in m_on.conformations[name].groups:
            want.setdefault(g.label, []).append(len(g.non_covalently_coupled_groups) > 0)
        for row in parsed['det']:
            w = want.get(row['label'])
            if w is None:
                continue
            if row['star'] not in w:
                v.append(('star-mismatch/%s' % ('missing' if w[0] else 'spurious'), '%s: row %r star=%s, partners=%s' % (name, row['label'], row['star'], w)))
        anystar = any(r['star'] for r in parsed['det'])
        if anystar != parsed['coupled_note'] and name == 'AVR':
            pass   # the note depends on the container flag, checked through C02's text oracle
    seen = set()
    for ck, what in v:
        if ck not in seen:
            seen.add(ck)
            acc.viols.append(Viol(case, 'coupling', ck, what, inputs=dict(pdb=text)))

"""C17 - added hydrogens are chemically placed and complete."""
import collections
import math

from ..core import Acc, Viol, jhash
from .. import pk, gen, corpus
from . import c04, c07
import propka.protonate
import propka.vector_algebra

ID = 'C17'
HORIZON_S = 1800   # one case = one input under all its transformations
LEVEL = 'exploration'
LEVEL_TEXT = ('Every residue of the reference proteins in chain context (7-residue windows with stride 5; thorough: stride 1 and whole '
              'chains), every ligand template and the fragments flattened into a coordinate plane are run through the real program in '
              'default mode and with --protonate-all, in all 24 grid rotations x 2 translations, and (amino-acid inputs) with --keep-protons on '
              'the program\'s own hydrogens - complete, moved to X-ray riding distances, and with each single one of them removed; every hydrogen the program created is '
              'checked for exactly one bonded heavy atom (and no second heavy atom within its own X-H bond length), the tabulated X-H length (+-0.002 A), >= 0.5 A separation from its siblings, '
              'the complement of complete residues (His 2, Arg 5, Asn/Gln 2, Trp 1, amide 1 except Pro and N-terminus) together with '
              'the absence of the "missing atoms or failed protonation" warning, and equivariance of the hydrogen positions under the '
              'motion (+-0.002 A rounded, 1e-9 with the un-rounded seam).')
LEVEL_NOTE = ('Bond-length table typed in from the statement\'s source (C 1.09, N 1.01, O 0.96, S 1.35, halogens; 1.0 otherwise). Residues '
              'whose nitrogen atoms do not have the regular number of heavy-atom bonds (close contacts, missing neighbours) are '
              'counted as irregular and excluded from the complement claim; hydrogens built through Vector.orthogonal() are excluded '
              'from the equivariance claim (frame-dependent rotamer by design).')
TECHNIQUE = 'exhaustive enumeration of residue environments x grid motions; geometric invariants on every created hydrogen and differential equivariance check'
ASSUMPTIONS = ['hydrogens are the atoms of element H in ConformationContainer.atoms; inputs contain none except in the keep-protons mode, where they are the program\'s own']

XH = {'C': 1.09, 'N': 1.01, 'O': 0.96, 'F': 0.92, 'Cl': 1.27, 'Br': 1.41, 'I': 1.61, 'S': 1.35}
# nitrogen atoms that must carry hydrogens in a complete residue: name -> (regular heavy-atom bonds, hydrogens)
N_RULES = {'HIS': {'ND1': (2, 1), 'NE2': (2, 1)}, 'ARG': {'NE': (2, 1), 'NH1': (1, 2), 'NH2': (1, 2)}, 'ASN': {'ND2': (1, 2)},
           'GLN': {'NE2': (1, 2)}, 'TRP': {'NE1': (2, 1)}}


class RotamerSeam:
    """Records which heavy atoms were protonated through Vector.orthogonal()."""

    def __init__(self):
        self.current = None
        self.rotamer_parents = set()
        self.o_orth = propka.vector_algebra.Vector.orthogonal
        self.o_prot = propka.protonate.Protonate.protonate_atom
        seam = self

        def orth(v):
            if seam.current is not None:
                seam.rotamer_parents.add(id(seam.current))
            return seam.o_orth(v)

        def prot(pself, atom):
            prev = seam.current
            seam.current = atom
            try:
                return seam.o_prot(pself, atom)
            finally:
                seam.current = prev
        propka.vector_algebra.Vector.orthogonal = orth
        propka.protonate.Protonate.protonate_atom = prot

    def remove(self):
        propka.vector_algebra.Vector.orthogonal = self.o_orth
        propka.protonate.Protonate.protonate_atom = self.o_prot


def akey(a):
    return (a.chain_id, a.res_num, a.icode, a.res_name, a.name)


def hydrogens(mol, seam, supplied=()):
    """{parent atom key: [(x,y,z)...]}, set of rotamer parents, geometric violations.  `supplied`: coordinates of hydrogens that came
    with the input (their X-H length is the input's business; everything else applies to them too)."""
    conf = mol.conformations[mol.conformation_names[0]]
    supplied = set(supplied)
    by_parent = collections.OrderedDict()
    v = []
    rot = set()
    for a in conf.atoms:
        if a.element != 'H':
            continue
        heavy = [b for b in a.bonded_atoms if b.element != 'H']
        if len(a.bonded_atoms) != 1 or len(heavy) != 1:
            v.append(('hydrogen-bond-count', 'H %s bonded to %d atoms (%d heavy)' % (akey(a), len(a.bonded_atoms), len(heavy))))
            continue
        p = heavy[0]
        if not any(x is a for x in p.bonded_atoms):
            v.append(('hydrogen-bond-asymmetric', 'H %s not in the bond list of its parent' % (akey(a),)))
        d = math.sqrt((a.x - p.x) ** 2 + (a.y - p.y) ** 2 + (a.z - p.z) ** 2)
        want = XH.get(p.element, 1.0)
        if abs(d - want) > 0.002 and (round(a.x, 3), round(a.y, 3), round(a.z, 3)) not in supplied:
            v.append(('hydrogen-bond-length/%s' % p.element, '%s-H %.4f A, table %.2f' % (akey(p), d, want)))
        by_parent.setdefault(akey(p), []).append((a.x, a.y, a.z))
        if id(p) in seam.rotamer_parents:
            # a frame-dependent rotamer is legitimate only where nothing defines the direction: not for a planar (steric number 3)
            # atom whose single neighbour is itself planar and carries another heavy atom - that neighbour's substituents define
            # the plane (a planar atom on a tetrahedral neighbour, e.g. the carbonyl carbon of a residue that lacks its O, is a rotamer)
            nbs = [b for b in p.bonded_atoms if b.element != 'H']
            definable = (getattr(p, 'steric_number', None) == 3 and len(nbs) == 1 and getattr(nbs[0], 'steric_number', None) == 3
                         and any(x is not p and x.element != 'H' for x in nbs[0].bonded_atoms))
            if not definable:
                rot.add(akey(p))
    for pkey, hs in by_parent.items():
        for i in range(len(hs)):
            for j in range(i):
                d = math.sqrt(sum((hs[i][k] - hs[j][k]) ** 2 for k in range(3)))
                if d < 0.5:
                    v.append(('hydrogens-coincide', 'two H on %s are %.3f A apart' % (pkey, d)))
    # exactly one heavy atom: a created hydrogen closer to a heavy atom other than its parent than that element's own X-H bond length
    # (minus 0.05 A) sits on a second heavy atom, whatever the bond lists say
    heavy_all = [b for b in conf.atoms if b.element != 'H']
    for a in conf.atoms:
        if a.element != 'H' or not a.bonded_atoms:
            continue
        for b in heavy_all:
            if b is a.bonded_atoms[0]:
                continue
            lim = XH.get(b.element, 1.0) - 0.05      # closer than a bond of that element to hydrogen would be
            if abs(a.x - b.x) < lim and abs(a.y - b.y) < lim and abs(a.z - b.z) < lim:
                d = math.sqrt((a.x - b.x) ** 2 + (a.y - b.y) ** 2 + (a.z - b.z) ** 2)
                if d < lim:
                    v.append(('hydrogen-on-second-heavy-atom/%s' % b.element, 'H %s is %.3f A from %s' % (akey(a), d, akey(b))))
    return by_parent, rot, v


def complement(mol, s, warnings):
    """Complement of complete, regular residues in chain context."""
    v = []
    conf = mol.conformations[mol.conformation_names[0]]
    res = collections.OrderedDict()
    for a in conf.atoms:
        if a.element != 'H':   # created hydrogens carry no insertion code; they are reached through their parents
            res.setdefault((a.chain_id, a.res_num, a.icode), []).append(a)
    keys = list(res)
    stats = collections.Counter()
    for n, key in enumerate(keys):
        atoms = res[key]
        heavy = [a for a in atoms if a.element != 'H']
        if heavy[0].type != 'atom':
            continue
        rname = ALIASES.get(heavy[0].res_name.strip(), heavy[0].res_name)
        if len(heavy) != gen.EXPECTED_ATOMS.get(rname, -1):
            stats['incomplete'] += 1
            continue
        by = {a.name: a for a in heavy}
        nat = by.get('N')
        cat = by.get('C')
        # chain neighbours present, decided from the coordinates (not from the program's own bond list): a carbonyl C of
        # another residue within 1.5 A of N, an N of another residue within 1.5 A of C
        def near(at, name):
            # (decided on the atoms of the input file, not on what the program kept of them)
            if at is None:
                return False
            for b in s.atoms:
                if b.name == name and b.element != 'H' and (b.resnum, b.icode, b.chain.strip() or '_') != (at.res_num, at.icode, at.chain_id):
                    if (b.x / 1000.0 - at.x) ** 2 + (b.y / 1000.0 - at.y) ** 2 + (b.z / 1000.0 - at.z) ** 2 < 1.5 ** 2:
                        return True
            return False
        prev_ok = near(nat, 'C')
        next_ok = near(cat, 'N')
        if not (prev_ok and next_ok):
            stats['no-chain-context'] += 1
            continue
        rules = dict(N_RULES.get(rname, {}))
        rules['N'] = (3, 0) if rname == 'PRO' else (2, 1)
        regular = True
        for an, (nb, nh) in rules.items():
            at = by.get(an)
            # regular covalent geometry, decided from the coordinates: exactly nb heavy atoms within 2.0 A
            if at is None or sum(1 for b in s.atoms if b.element != 'H' and b.resname not in ('HOH', 'H2O')
                                 and 1e-6 < (b.x / 1000.0 - at.x) ** 2 + (b.y / 1000.0 - at.y) ** 2 + (b.z / 1000.0 - at.z) ** 2 < 4.0) != nb:
                regular = False      # (counted on the atoms of the input file)
        if not regular:
            stats['irregular'] += 1
            continue
        stats['judged'] += 1
        for an, (nb, nh) in rules.items():
            got = len([b for b in by[an].bonded_atoms if b.element == 'H'])
            if got != nh:
                v.append(('complement/%s-%s' % (rname, an), '%s %s carries %d hydrogens, expected %d' % (key, an, got, nh)))
        for (lg, lvl, msg) in warnings:
            if 'Missing atoms or failed protonation' in msg and ('%4d%2s' % (key[1], key[0])) in msg:
                gtype = msg.split('(')[-1].split(')')[0]
                if gtype in ('HIS', 'ARG', 'AMD', 'TRP', 'BBN'):
                    v.append(('failed-protonation-warning/%s' % gtype, msg[:120]))
    return v, stats


def inputs(tier):
    out = []
    lib = gen.library()
    stride = 5 if tier == 'quick' else 2
    for key in (('3SGB', '1HPX') if tier == 'quick' else tuple(gen.PROTEINS)):
        for ch in corpus.chains_of(key):
            n = len(lib.protein_residues(key, ch))
            for i in range(0, n - 6, stride):
                out.append(dict(src='corpus', d=corpus.window_desc(key, ch, i, 7)))
    for name in gen.TEMPLATES:
        out.append(dict(src='ligand', name=name))
    for kind in ('ARG', 'HIS', 'ASN', 'GLN', 'TRP'):
        out.append(dict(src='flat', kind=kind))
    out.append(dict(src='exact-metal', kind='HIS', ion='ZN'))
    out.append(dict(src='exact-metal', kind='HIS', ion='FE'))
    # the sp2 carbon of a guanidinium / amide lifted out of the plane of its substituents (0.10, 0.15, 0.25 A)
    for kind in ('ARG', 'ASN', 'GLN'):
        for pucker in (100, 150, 250):
            out.append(dict(src='flat', kind=kind, pucker=pucker))
    # real ligands in their binding sites (fused, slightly non-planar rings)
    out.append(dict(src='corpus', d=corpus.cutout_desc('4DFR', 'B', 99, 9.0)))
    out.append(dict(src='corpus', d=corpus.cutout_desc('1HPX', 'A', 24, 9.0)))
    # a modified residue written as HETATM inside a chain (selenomethionine-like): its neighbours keep their chain context
    for key, ch, i in (('3SGB', 'E', 130), ('3SGB', 'E', 60), ('1HPX', 'A', 44)):
        out.append(dict(src='hetero-in-chain', d=corpus.window_desc(key, ch, i, 7)))
    # metal sites: an ion at coordination distance from a protonatable nitrogen / oxygen
    out.append(dict(src='corpus', d=corpus.cutout_desc('1FTJ', 'A', 42, 9.0)))
    for ion, kind, dist in (('ZN', 'HIS', 2.1), ('ZN', 'HIS', 2.3), ('CA', 'ASP', 2.4), ('ZN', 'CYS', 2.3), ('MG', 'GLN', 2.1), ('FE', 'HIS', 2.2), ('ZN', 'LYS', 2.1)):
        out.append(dict(src='corpus', d=corpus.pair_desc(kind, ion, dist, 'exposed')))
    # chains capped with an acetyl / N-methyl group written as ATOM records (as simulation packages do)
    for key, ch, i in (('3SGB', 'E', 30), ('1HPX', 'A', 10), ('1FTJ', 'A', 28)):
        out.append(dict(src='capped', d=corpus.window_desc(key, ch, i, 6)))
    # residue names the parameter file under test maps onto a protein group type besides the standard ones (HID/HIE/HIP ...): a complete
    # residue of that type's geometry under each such name
    for alias, base in sorted(cfg_aliases().items()):
        for key, ch in (('3SGB', 'E'), ('1HPX', 'A')):
            try:
                i = lib.find(key, ch, base, 0)
            except IndexError:
                continue
            if i >= 3:
                out.append(dict(src='alias', d=corpus.window_desc(key, ch, i - 3, 7), base=base, alias=alias))
                break
    if tier == 'thorough':
        out += [dict(src='corpus', d=d) for d in corpus.whole_chains()]
        out += [dict(src='corpus', d=d) for d in corpus.cutouts('quick', radius=9.0)]
    return out


ALIASES = {}


def cfg_aliases():
    """{non-standard residue name: standard residue whose group type it is mapped to} from the shipped parameter file."""
    import propka.lib
    import propka.input
    import propka.parameters
    opts = propka.lib.loadOptions(['x.pdb'])
    p = propka.input.read_parameter_file(opts.parameters, propka.parameters.Parameters())
    std = {}
    for k, t in p.protein_group_mapping.items():
        res, _, atom = k.partition('-')
        if res in gen.EXPECTED_ATOMS:
            std.setdefault((atom, t), res)
    out = {}
    for k, t in p.protein_group_mapping.items():
        res, _, atom = k.partition('-')
        if res not in gen.EXPECTED_ATOMS and len(res) == 3 and (atom, t) in std:
            out[res] = std[(atom, t)]
    ALIASES.update(out)
    return out


def plan(tier, seed):
    ins = inputs(tier)
    shards = [ins[i:i + 3] for i in range(0, len(ins), 3)]
    return dict(shards=shards, exhaustive=True,
                rule=('inputs: 7-residue windows of %s with stride %d (every interior residue is judged in chain context), all %d ligand '
                      'templates, 5 flattened planar fragments; modes: default and --protonate-all; motions: identity for the geometric '
                      'invariants and complement, 24 rotations x {generic translation, x,y,z near 9900} for equivariance (quick: 6 rotations '
                      'for windows, 24 for templates and flat fragments). guanidinium / amide fragments with the sp2 carbon lifted 0.10-0.25 A out of plane, a metal ion at exactly 2.000 A from a histidine nitrogen (binary-exact coordinates, identity pose only); also: the program\'s own hydrogens written back and kept (all, one missing in turn, at riding distances), hydrogens present in the input under default options in three naming styles, residues under alias names of the parameter file, capped peptides (ACE/NME), host application with DEBUG logging. non-trivial = distinct (input, mode, motion) with at least one '
                      'created hydrogen') % ('2 proteins' if tier == 'quick' else '4 proteins', 5 if tier == 'quick' else 2, len(gen.TEMPLATES)),
                bounds=dict(inputs=len(ins)), samples=[ins[0], ins[-1]])


def build(case, seed):
    if case['src'] == 'hetero-in-chain':
        s = corpus.build(case['d'], seed)
        keys = list(s.residues().keys())
        mid = keys[3][:3]
        for a in s.atoms:
            if a.reskey == mid:
                a.rec = 'HETATM'
                a.resname = 'MSX'
        return s
    if case['src'] == 'capped':
        # the first residue of the window becomes ACE (its CA, C, O kept as CH3, C, O), the last one NME (its N, CA kept as N, CH3)
        s = corpus.build(case['d'], seed)
        keys = list(s.residues().keys())
        first, last = keys[0][:3], keys[-1][:3]
        items = []
        for a in s.atoms:
            if a.reskey == first:
                if a.name not in ('CA', 'C', 'O'):
                    continue
                a = a.clone()
                a.resname = 'ACE'
                if a.name == 'CA':
                    a.name4 = ' CH3'
            elif a.reskey == last:
                if a.name not in ('N', 'CA'):
                    continue
                a = a.clone()
                a.resname = 'NME'
                if a.name == 'CA':
                    a.name4 = ' CH3'
            items.append(a)
        return gen.S(items)
    if case['src'] == 'alias':
        s = corpus.build(case['d'], seed)
        keys = list(s.residues().keys())
        mid = keys[3][:3]
        for a in s.atoms:
            if a.reskey == mid and a.resname.strip() == case['base']:
                a.resname = case['alias']
        ALIASES[case['alias']] = case['base']
        return s
    if case['src'] == 'exact-metal':
        # a metal ion at EXACTLY the heavy-atom bonding distance (2.000 A) from a ring nitrogen, on its lone-pair axis; both atoms on
        # binary-exact coordinates (multiples of 1/8 A) so that the squared distance is exactly 4: not bonded, the nitrogen keeps its hydrogen
        s = gen.kind_struct(case['kind'], 'A', 1)
        res = [a for a in s.atoms if a.resname == case['kind']]
        at = {a.name: a for a in res}
        n_, p_, q_ = {'HIS': ('NE2', 'CE1', 'CD2'), 'TRP': ('NE1', 'CD1', 'CE2')}[case['kind']]
        mid = [(at[p_].xyz[i] + at[q_].xyz[i]) / 2 for i in range(3)]
        R = gen.rotmat(gen._sub(list(at[n_].xyz), mid), [1.0, 0.0, 0.0])
        for a in s.atoms:
            v = [sum(R[i][j] * a.xyz[j] for j in range(3)) for i in range(3)]
            a.x, a.y, a.z = (int(round(c * 1000)) for c in v)
        s.translate((1125 - at[n_].x, 2250 - at[n_].y, -3500 - at[n_].z))
        ion = gen.kind_struct(case['ion'], 'B', 11)
        ion.atoms[0].x, ion.atoms[0].y, ion.atoms[0].z = 1125 + 2000, 2250, -3500
        return gen.S(s.items + ['TER\n'] + ion.items).renumber_serials()
    if case['src'] == 'ligand':
        return gen.ligand(case['name'], 'L', 1, origin=(10000, 10000, 10000)).translate(gen.seed_offset(seed))
    if case['src'] == 'flat':
        return c04.flat_fragment(case['kind'], case.get('pucker', 0)).translate(gen.seed_offset(seed))
    return corpus.build(case['d'], seed)


def run_case(case, ctx, acc):
    s = build(case, ctx.seed)
    text0 = gen.to_text(s)
    seam = RotamerSeam()
    try:
        import logging
        for mode, opts in (('default', ()), ('protonate-all', ('--protonate-all',)), ('default+host-debug-logging', ()),
                           ('protonate-all+host-debug-logging', ('--protonate-all',))):
            # (the last two: the host application has switched the package's loggers to DEBUG)
            logging.getLogger('propka').setLevel(logging.DEBUG if 'host-debug' in mode else logging.NOTSET)
            for unrounded in ((False,) if 'host-debug' in mode else (False, True)):
                pk.seam_unrounded_hydrogens(unrounded)
                seam.rotamer_parents.clear()
                mark = pk.warn_mark()
                m0 = pk.run(text0, opts)
                h0, rot0, v = hydrogens(m0, seam)
                sub = dict(case, mode=mode, unrounded=unrounded)
                nh = sum(len(x) for x in h0.values())
                acc.case(nontrivial_key=jhash(sub) if nh else None, outcome='%s/%s' % (mode, 'u' if unrounded else 'r'))
                if not unrounded:
                    cv, stats = complement(m0, s, pk.warnings_since(mark))
                    v += cv
                    for k_, n_ in stats.items():
                        acc.extra['residues_' + k_] += n_
                if unrounded:
                    v = [x for x in v if not x[0].startswith('hydrogen-bond-length')] + \
                        [x for x in v if x[0].startswith('hydrogen-bond-length')]
                done = set()
                for ck, what in v:
                    ck = ck + '/' + mode
                    if ck not in done:
                        done.add(ck)
                        acc.viols.append(Viol(sub, 'hydrogens', ck, what, inputs=dict(pdb=text0, opts=list(opts))))
                # the program's own hydrogens written back with one of them missing, --keep-protons: the builder completes the set
                if mode == 'default' and not unrounded and c07.amino_only(s) and case['src'] in ('corpus', 'flat', 'alias'):
                    fed = c07.hydrogens_fed_back(s, m0)
                    hidx = [] if fed is None else [i for i, it in enumerate(fed) if not isinstance(it, str) and it.element == 'H']
                    riding = None
                    if hidx:
                        # the same hydrogens at X-ray riding distances (N-H 0.86, O-H 0.82, C-H 0.93, S-H 1.20 A)
                        riding = []
                        for i, it in enumerate(fed):
                            if i in hidx:
                                par = min((p_ for p_ in fed if not isinstance(p_, str) and p_.element != 'H' and p_.reskey == it.reskey),
                                          key=lambda p_: (p_.x - it.x) ** 2 + (p_.y - it.y) ** 2 + (p_.z - it.z) ** 2)
                                d0 = math.sqrt((par.x - it.x) ** 2 + (par.y - it.y) ** 2 + (par.z - it.z) ** 2)
                                f = {'N': 860.0, 'O': 820.0, 'C': 930.0, 'S': 1200.0}.get(par.element, 900.0) / d0
                                it = it.clone()
                                it.x, it.y, it.z = (int(round(getattr(par, c) + f * (getattr(it, c) - getattr(par, c)))) for c in 'xyz')
                            riding.append(it)
                    for drop in ([None, 'riding'] + hidx if hidx else []):
                        items = riding if drop == 'riding' else [it for i, it in enumerate(fed) if i != drop]
                        sup = [(it.x / 1000.0, it.y / 1000.0, it.z / 1000.0) for it in items if not isinstance(it, str) and it.element == 'H']
                        mark = pk.warn_mark()
                        seam.rotamer_parents.clear()
                        mk = pk.run(gen.to_text(items), ('--keep-protons',))
                        hk, rotk, vk = hydrogens(mk, seam, supplied=[(round(x, 3), round(y, 3), round(z, 3)) for x, y, z in sup])
                        if drop == 'riding' and sum(len(x) for x in hk.values()) != len(sup):
                            vk.append(('hydrogen-count-changes-with-complete-input', '%d hydrogens supplied, %d present' % (len(sup), sum(len(x) for x in hk.values()))))
                        cvk, _ = complement(mk, s, pk.warnings_since(mark))
                        subk = dict(case, mode='keep-protons', dropped=drop if drop in (None, 'riding') else fed[drop].name + '@%d' % fed[drop].resnum)
                        acc.case(nontrivial_key=jhash(subk), outcome='keep-protons/%s' % ('all' if drop is None else ('riding' if drop == 'riding' else 'one-missing')))
                        donek = set()
                        for ck, what in vk + cvk:
                            ck = ck + '/keep-protons' + ('' if drop is None else ('-riding' if drop == 'riding' else '-one-missing'))
                            if ck not in donek:
                                donek.add(ck)
                                acc.viols.append(Viol(subk, 'hydrogens', ck, what, inputs=dict(pdb=gen.to_text(items), opts=['--keep-protons'])))
                    # hydrogens present in the input under default options, written with the naming conventions in use (current
                    # 'HH11', old 'digit first' '1HH1', all named 'H'): they are discarded and rebuilt - same set, same warnings
                    for style in (('current', 'digit-first', 'plain-H') if hidx else ()):
                        items = []
                        for i, it in enumerate(fed):
                            if i in hidx and style != 'current':
                                it = it.clone()
                                nm = it.name
                                if style == 'plain-H':
                                    it.name4 = ' H  '
                                elif nm[-1].isdigit() and len(nm) > 1:
                                    nm = nm[-1] + nm[:-1]
                                    it.name4 = nm if len(nm) == 4 else '%-4s' % nm
                            items.append(it)
                        mark = pk.warn_mark()
                        seam.rotamer_parents.clear()
                        mk = pk.run(gen.to_text(items), ())
                        hk, rotk, vk = hydrogens(mk, seam)
                        cvk, _ = complement(mk, s, pk.warnings_since(mark))
                        if hk != h0:
                            vk.append(('input-hydrogens-change-the-built-set', 'default %d hydrogens on %d atoms, with input hydrogens %d on %d' % (
                                sum(len(x) for x in h0.values()), len(h0), sum(len(x) for x in hk.values()), len(hk))))
                        subk = dict(case, mode='default+input-hydrogens', style=style)
                        acc.case(nontrivial_key=jhash(subk), outcome='input-hydrogens/' + style)
                        donek = set()
                        for ck, what in vk + cvk:
                            ck = ck + '/input-hydrogens-' + style
                            if ck not in donek:
                                donek.add(ck)
                                acc.viols.append(Viol(subk, 'hydrogens', ck, what, inputs=dict(pdb=gen.to_text(items), opts=[])))
                if 'host-debug' in mode:
                    continue      # geometry, complement and warnings only (equivariance is judged in the plain modes)
                # equivariance
                if case['src'] == 'exact-metal':
                    continue      # (a contact at exactly the bonding threshold is exact in this one pose only)
                small = case['src'] not in ('corpus', 'alias', 'capped')
                rots = range(24) if (small or ctx.tier == 'thorough') else (0, 3, 7, 13, 18, 22)
                tol = 1e-9 if unrounded else 0.002
                for ri in rots:
                    for tname, t in (('generic', (12345, -54321, 777)), ('far', None)):
                        if tname == 'far':
                            ext = s.extent()
                            t = tuple(9900000 - ext[i][1] for i in range(3))
                            if ri not in (0, 13):
                                continue
                        if ri == 0 and tname == 'generic' and not small:
                            pass
                        rot = gen.ROTATIONS[ri]
                        moved = s.copy().rotate(rot).translate(t)
                        ext = moved.extent()
                        if any(e[0] < -999999 or e[1] > 9999999 for e in ext):
                            continue
                        seam.rotamer_parents.clear()
                        m1 = pk.run(gen.to_text(moved), opts)
                        h1, rot1, v1 = hydrogens(m1, seam)
                        acc.n += 1
                        sub2 = dict(sub, rot=ri, tr=tname)
                        bad = None
                        for pkey, hs in h0.items():
                            if pkey in rot0 or pkey in rot1:
                                acc.extra['rotamer_parents_excluded'] += 1
                                continue
                            hs1 = h1.get(pkey)
                            if hs1 is None or len(hs1) != len(hs):
                                kind_ = 'hetero' if pkey[3].strip() not in gen.EXPECTED_ATOMS else 'protein'
                                bad = ('hydrogen-count-depends-on-pose/' + kind_, '%s: %d vs %s' % (pkey, len(hs), None if hs1 is None else len(hs1)))
                                break
                            perm, sg = rot
                            mapped = sorted(tuple(sg[i] * h[perm[i]] + t[i] / 1000.0 for i in range(3)) for h in hs)
                            got = sorted(hs1)
                            # match as sets (order of siblings is not a value)
                            used = [False] * len(got)
                            for mpt in mapped:
                                hit = None
                                for q, g in enumerate(got):
                                    if not used[q] and max(abs(mpt[k] - g[k]) for k in range(3)) <= tol * (1 if not unrounded else max(1.0, abs(g[0]), abs(g[1]), abs(g[2]))):
                                        hit = q
                                        break
                                if hit is None:
                                    bad = ('hydrogen-position-depends-on-pose/%s' % ('unrounded' if unrounded else 'rounded'),
                                           '%s: expected %s among %s' % (pkey, [round(c, 4) for c in mpt], [[round(c, 4) for c in g] for g in got]))
                                    break
                                used[hit] = True
                            if bad:
                                break
                        for pkey in h1:
                            if pkey not in h0 and pkey not in rot1 and not bad:
                                kind_ = 'hetero' if pkey[3].strip() not in gen.EXPECTED_ATOMS else 'protein'
                                bad = ('hydrogen-count-depends-on-pose/' + kind_, '%s has hydrogens only in the moved pose' % (pkey,))
                        if bad:
                            acc.viols.append(Viol(sub2, 'equivariance', bad[0] + '/' + mode, bad[1], inputs=dict(pdb=text0, moved=gen.to_text(moved), opts=list(opts))))
    finally:
        import logging as _lg
        _lg.getLogger('propka').setLevel(_lg.NOTSET)
        seam.remove()
        pk.seam_unrounded_hydrogens(False)

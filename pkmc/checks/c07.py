"""C07 - content the model does not use has no effect on any result."""
import itertools
import math

from ..core import Acc, Viol, jhash
from .. import pk, gen, cmp, corpus

ID = 'C07'
HORIZON_S = 1800   # one case = one input under all its transformations
LEVEL = 'exploration'
LEVEL_TEXT = ('Every input of the corpus is edited by every single edit (quick) and every pair of edits from different families '
              '(thorough) of a fixed list: one record of each ignorable residue name as ATOM and HETATM at four positions and 2.6 A '
              'from a group, each non-atom record type, hydrogens with each naming pattern on each heavy atom of a residue, and '
              'rewrites of the serial, occupancy, B-factor, element and charge columns (uniform, alternating and per-alt-loc values, truncated '
              'and over-long lines), also on multi-conformation inputs whose residues carry different alt-loc sets; '
              'the real results must equal those of the unedited input. --protonate-all is compared with the default run (and with the '
              '--keep-protons run on own and displaced hydrogens), input hydrogens with used and unused alt-loc letters are added to multi-conformation inputs, and for '
              'amino-acid inputs the program\'s own hydrogens are written back and the --keep-protons run compared with the default.')
LEVEL_NOTE = ('Differential oracle between real executions (1e-9). A fed-back hydrogen closer than 1.5 A to a second heavy atom is '
              'skipped (it would create a second bond). Three or more simultaneous edits are outside the bound.')
TECHNIQUE = 'exhaustive enumeration of edits (deviation bound 1/2) over a bounded input corpus; differential comparison of real executions'
ASSUMPTIONS = ['hydrogens are recognised by the element inferred from the name columns, as the format defines']

IGNORABLE = ('HOH', 'H2O', 'SO4', 'PO4', 'PEG', 'EPE', 'TRS')
OTHER_RECORDS = ['REMARK   1 nothing to see\n', 'HEADER    HYDROLASE                               01-JAN-00   XXXX\n', 'CONECT    1    2\n',
                 'ANISOU    1  N   ALA A   1     2406   1892   1614    198    519   -328       N\n', 'SEQRES   1 A    3  ALA ALA ALA\n',
                 'END\n', '\n', 'CRYST1   50.000   50.000   50.000  90.00  90.00  90.00 P 1           1\n', 'HETNAM     XXX SOMETHING\n',
                 'SIGATM    1  N   ALA A   1       0.010   0.010   0.010  0.00  0.00           N\n', 'MASTER        0    0    0\n',
                 'atom      1  N   ALA A   1       0.000   0.000   0.000  1.00  0.00           N\n', 'ENDMDL\n', 'TITLE     X\n']
H_NAMES = [' H  ', ' HA ', '1HB ', 'HD11', ' HG ', '2H  ', ' HXT', '1HH1', '2HD2', '3HD1']


def positions(items):
    atoms_idx = [i for i, it in enumerate(items) if not isinstance(it, str)]
    first = atoms_idx[0]
    res0 = items[first].reskey
    inside = first + 2 if len(atoms_idx) > 2 else first + 1
    between = next((i for i in atoms_idx if items[i].reskey != res0), len(items))
    return {'start': 0, 'inside-residue': inside, 'between-residues': between, 'end': len(items)}


def probe_point(items):
    """A point 2.6 A from an atom of a group-bearing residue (so that a non-ignored atom there would matter)."""
    atoms = [it for it in items if not isinstance(it, str)]
    target = next((a for a in atoms if a.name in ('CG', 'CD', 'NZ', 'OH', 'SG', 'CZ', 'OD1', 'OE1', 'C1', 'N1')), atoms[len(atoms) // 2])
    c = gen.centroid(atoms)
    u = [target.xyz[i] - c[i] for i in range(3)]
    n = math.sqrt(sum(x * x for x in u)) or 1.0
    return tuple(int(round((target.xyz[i] + 2.6 * u[i] / n) * 1000)) for i in range(3)), target


def edit_list(items, tier):
    """[(family, name, new_items)]"""
    out = []
    pos = positions(items)
    pt, target = probe_point(items)
    atoms = [it for it in items if not isinstance(it, str)]
    # ignorable residues
    for res in IGNORABLE:
        for rec in ('ATOM  ', 'HETATM'):
            for chain in (target.chain, 'W'):
                for pname, p in pos.items():
                    if tier == 'quick' and (chain == 'W') != (pname in ('start', 'end')):
                        continue
                    a = gen.A(rec, '    0', ' O  ', ' ', res, chain, 900, ' ', pt[0], pt[1], pt[2], '  1.00', '  0.00', '           O')
                    new = list(items)
                    new.insert(p, a)
                    out.append(('ignorable', 'ignorable/%s/%s/%s/%s' % (res, rec.strip(), 'samechain' if chain != 'W' else 'W', pname), new))
    # other record types
    for rec_line in OTHER_RECORDS:
        for pname, p in pos.items():
            if tier == 'quick' and pname not in ('start', 'inside-residue', 'between-residues'):
                continue
            new = list(items)
            new.insert(p, rec_line)
            out.append(('record', 'record/%s/%s' % (rec_line[:6].strip() or 'blank', pname), new))
    # hydrogens in the input
    res0 = target.reskey
    heavy = [a for a in atoms if a.reskey == res0]
    for hn in H_NAMES:
        for a in (heavy if tier == 'thorough' else heavy[:3] + [target]):
            h = a.clone()
            h.name4 = hn
            h.x += 700
            h.y += 500
            h.z -= 400
            h.tail = '           H'
            new = list(items)
            new.insert(items.index(a) + 1, h)
            out.append(('hydrogen', 'hydrogen/%s/on-%s' % (hn.strip(), a.name), new))
    # several input hydrogens listed after the terminal oxygen of a chain end (with and without a TER record following)
    for i, it in enumerate(items):
        if not isinstance(it, str) and it.name in ('OXT', "O''"):
            for nh in (1, 2, 3):
                new = list(items)
                for q in range(nh):
                    h = it.clone()
                    h.name4, h.tail = (' HXT', ' H  ', ' HA ')[q], '           H'
                    h.x, h.y, h.z = h.x + 600 + 150 * q, h.y - 500, h.z + 300 * q
                    new.insert(i + 1 + q, h)
                out.append(('hydrogen', 'hydrogen/%d-after-OXT' % nh, new))
            break
    # column rewrites
    def rewrite(fn):
        new = []
        for it in items:
            if isinstance(it, str):
                new.append(it)
            else:
                b = it.clone()
                fn(b)
                new.append(b)
        return new
    cols = {
        'occ-zero': lambda a: setattr(a, 'occ', '  0.00'), 'occ-half': lambda a: setattr(a, 'occ', '  0.50'),
        'occ-blank': lambda a: setattr(a, 'occ', '      '), 'b-high': lambda a: setattr(a, 'b', ' 99.99'),
        'b-blank': lambda a: setattr(a, 'b', '      '), 'b-negative': lambda a: setattr(a, 'b', ' -1.00'),
        'element-wrong': lambda a: setattr(a, 'tail', '          XX'), 'element-lower': lambda a: setattr(a, 'tail', '           c'),
        'element-H': lambda a: setattr(a, 'tail', '           H'),
        'charge': lambda a: setattr(a, 'tail', '           N1+'), 'segid': lambda a: setattr(a, 'tail', '      SEGA  C2-'),
        'tail-blank': lambda a: setattr(a, 'tail', ''), 'tail-long': lambda a: setattr(a, 'tail', '           C      junk beyond column 80'),
        'serial-hy36': lambda a: setattr(a, 'serial', 'A%04d' % (int(a.serial) % 10000 if a.serial.strip().lstrip('-').isdigit() else 0)),
        'serial-same': lambda a: setattr(a, 'serial', '    1'),
        'serial-descending': lambda a: setattr(a, 'serial', '%5d' % (90000 - (abs(a.x) * 7 + abs(a.y) * 3 + abs(a.z)) % 80000)),
        'serial-restarting': lambda a: setattr(a, 'serial', '%5d' % (1 + (abs(a.x) + abs(a.y) + abs(a.z)) % 7)),
        # values that differ from atom to atom / between alternate locations
        'occ-by-altloc': lambda a: setattr(a, 'occ', {' ': '  1.00', 'A': '  0.30', '1': '  0.30', 'B': '  0.70', '2': '  0.70', 'C': '  0.10'}.get(a.alt, '  0.45')),
        'occ-by-altloc-reversed': lambda a: setattr(a, 'occ', {' ': '  0.20', 'A': '  0.60', '1': '  0.60', 'B': '  0.15', '2': '  0.15', 'C': '  0.25'}.get(a.alt, '  0.45')),
        'occ-alternating': lambda a: setattr(a, 'occ', '  0.25' if (a.x + a.y + a.z) % 2 else '  0.75'),
        'b-alternating': lambda a: setattr(a, 'b', ' 10.00' if (a.x + a.y + a.z) % 2 else ' 80.00'),
    }
    for name, fn in cols.items():
        out.append(('column', 'column/' + name, rewrite(fn)))
    # truncated lines (nothing after the coordinates)
    trunc = []
    for it in items:
        trunc.append(it if isinstance(it, str) else it.line()[:54] + '\n')
    out.append(('column', 'column/truncated-after-xyz', trunc))
    if any(isinstance(it, str) and it.startswith('ENDMDL') for it in items):
        out.append(('record', 'record/ENDMDL/all-removed', [it for it in items if not (isinstance(it, str) and it.startswith('ENDMDL'))]))
    return out


def inputs(tier):
    out = [dict(src='corpus', d=d) for d in corpus.windows(tier, k=5)[:: (1 if tier == 'thorough' else 3)]]
    out += [dict(src='corpus', d=d) for d in corpus.cutouts(tier, radius=8.0)[:: (2 if tier == 'thorough' else 5)]]
    out += [dict(src='corpus', d=d) for d in corpus.pairs('quick', kinds_a=('ASP', 'HIS', 'N+', 'ACT'), kinds_b=('LYS', 'C-', 'CA', 'MAM', 'PYR', 'ASN', 'MGU', 'AMI'))]
    out += [dict(src='corpus', d=d) for d in corpus.clusters('quick')[::8]]
    # multi-conformation inputs (options must keep their promise in every conformation)
    for lay in ([[' ', 'ASP'], ['B', 'ASPs']], [['A', 'ASP'], ['B', 'ALA']]):
        out.append(dict(src='c08', d=dict(kind='alt', layout=lay)))
    out.append(dict(src='c08', d=dict(kind='model', layout=[[1, 'ASP'], [2, 'ASPs']])))
    out.append(dict(src='repeat', d=corpus.cutout_desc('4DFR', 'A', 26, 8.0)))
    out.append(dict(src='repeat', d=corpus.pair_desc('HIS', 'GLU', 3.0, 'mid')))
    # three conformations whose residues carry different sets of alternate locations (an atom can be completed from several others)
    for lay, lys in (([['A', 'ASP'], ['B', 'ASPs'], ['C', 'ASP']], [['A', 'LYS'], ['B', 'LYSs']]),
                     ([['A', 'ASP'], ['B', 'ASPs']], [['A', 'LYS'], ['B', 'LYSs'], ['C', 'LYS']]),
                     ([[' ', 'ASP'], ['B', 'ASPs']], [['B', 'LYSs'], ['C', 'LYS']])):
        out.append(dict(src='c08', d=dict(kind='alt', layout=lay, lys=lys)))
    # a second conformation that consists of copies only (one atom elsewhere has an alternate location): ligand site, salt bridges
    for d in (corpus.cutout_desc('4DFR', 'A', 26, 9.0), corpus.cutout_desc('1HPX', 'A', 24, 9.0), corpus.cluster_desc(('ASP', 'ARG', 'GLU'), 'line', 3.0, 'deep')):
        out.append(dict(src='altcopy', d=d))
    # a chain end (OXT) directly followed by the next chain, without TER record
    for ka, kb in (('C-', 'N+'), ('C-', 'LYS'), ('C-', 'HIS')):
        out.append(dict(src='oxt-no-ter', a=ka, b=kb))
    # metal sites with a ligand atom closer than 2.0 A (bonded by the distance rule): a carboxylate on zinc as in 1FTJ
    out.append(dict(src='corpus', d=corpus.cutout_desc('1FTJ', 'A', 42, 9.0)))
    for a, ion_, dist in (('GLU', 'ZN', 1.95), ('HIS', 'ZN', 1.98), ('ASP', 'CA', 1.9), ('CYS', 'ZN', 1.99)):
        out.append(dict(src='closeion', a=a, ion=ion_, dist=dist))
    # models whose last chain is not closed by TER
    out.append(dict(src='repeat', d=corpus.pair_desc('ASP', 'LYS', 2.8, 'exposed'), noter=True))
    out.append(dict(src='repeat', d=corpus.window_desc('1HPX', 'A', 20, 8), second=corpus.window_desc('1HPX', 'B', 40, 6), noter=True))
    return out


def plan(tier, seed):
    ins = inputs(tier)
    shards = [ins[i:i + 2] for i in range(0, len(ins), 2)]
    return dict(shards=shards, exhaustive=True,
                rule=('inputs: 5-residue windows, 8 A cut-outs, docked pairs (4x6 kinds incl. ligands/ions), clusters; edits: %d ignorable '
                      'residue names x ATOM/HETATM x own/other chain x 4 positions, %d other record types x positions, %d hydrogen names x '
                      'heavy atoms of one residue, 22 column rewrites (incl. values that differ between alternate locations); thorough: also every pair of edits from two different families '
                      '(first edit of each family per position class); options: default for all, --protonate-all and keep-protons feedback '
                      'per input. inputs also: multi-conformation layouts (edits applied in every conformation), a chain repeated without TER, alt-loc copies, an ion 2 A from a carboxylate, chains ending in OXT without TER; hydrogens after OXT and on alternate locations; keep-protons with and without --protonate-all on own and displaced hydrogens. non-trivial = distinct (input, edit)') % (len(IGNORABLE), len(OTHER_RECORDS), len(H_NAMES)),
                bounds=dict(inputs=len(ins), max_simultaneous_edits=1 if tier == 'quick' else 2), samples=[ins[0]])


def amino_only(s):
    return all(a.rec == 'ATOM  ' for a in s.atoms)


def hydrogens_fed_back(s, mol):
    """Items of s with the program's own hydrogens inserted after their parent residue's atoms (or None if guarded)."""
    conf = mol.conformations[mol.conformation_names[0]]
    heavy = [a for a in conf.atoms if a.element != 'H']
    extra = {}
    for h in conf.atoms:
        if h.element != 'H':
            continue
        parent = h.bonded_atoms[0]
        for a in heavy:
            if a is parent:
                continue
            if (a.x - h.x) ** 2 + (a.y - h.y) ** 2 + (a.z - h.z) ** 2 < 1.5 ** 2:
                return None   # guard: would be bonded to a second heavy atom
        key = (parent.chain_id if parent.chain_id != '_' else ' ', parent.res_num, parent.icode)
        nm = h.name if len(h.name) == 4 else ' %-3s' % h.name
        rec = gen.A('ATOM  ' if parent.type == 'atom' else 'HETATM', '    0', nm, ' ', parent.res_name, key[0], key[1], key[2],
                    int(round(h.x * 1000)), int(round(h.y * 1000)), int(round(h.z * 1000)), '  1.00', '  0.00', '           H')
        extra.setdefault(key, []).append(rec)
    items, last = [], None
    src = s.items
    for i, it in enumerate(src):
        items.append(it)
        if not isinstance(it, str):
            nxt = src[i + 1] if i + 1 < len(src) else None
            if nxt is None or isinstance(nxt, str) or nxt.reskey != it.reskey:
                items += extra.pop(it.reskey, [])
    if extra:
        return None
    return items


def run_case(case, ctx, acc):
    if case['src'] == 'c08':
        from . import c08
        d = dict(case['d'], layout=[tuple(x) for x in case['d']['layout']])
        if d.get('lys'):
            d['lys'] = [tuple(x) for x in d['lys']]
        s = c08.build(d, ctx.seed)
    elif case['src'] == 'altcopy':
        s = corpus.build(case['d'], ctx.seed)
        items = list(s.items)
        k = next(i for i, it in enumerate(items) if not isinstance(it, str) and it.name == 'CB')
        b = items[k].clone()
        items[k].alt, b.alt = 'A', 'B'
        b.x += 300
        items.insert(k + 1, b)
        s = gen.S(items)
    elif case['src'] == 'oxt-no-ter':
        s = gen.pair(case['a'], case['b'], 3.0, level='exposed', offset=gen.seed_offset(ctx.seed))
        s = gen.S([it for it in s.items if not isinstance(it, str)])      # no TER anywhere: the OXT alone ends the first chain
    elif case['src'] == 'closeion':
        s = gen.pair(case['a'], case['ion'], case['dist'], level='mid', offset=gen.seed_offset(ctx.seed))
    elif case['src'] == 'repeat':
        one = corpus.build(case['d'], ctx.seed)
        if case.get('second'):
            one = gen.S(one.items + ['TER\n'] + corpus.build(case['second'], ctx.seed).items)
        its = list(one.items)
        if case.get('noter'):
            while its and isinstance(its[-1], str):
                its.pop()
        items = []
        for m in (1, 2):
            items += ['MODEL     %4d\n' % m] + [i.clone() if not isinstance(i, str) else i for i in its] + ['ENDMDL\n']
        s = gen.S(items)
    else:
        s = corpus.build(case['d'], ctx.seed)
    text0 = gen.to_text(s)
    m0 = pk.run(text0)
    r0 = pk.record(m0)

    def compare(sub, text, opts, family, tol=1e-9, ref=r0):
        r1 = pk.record(pk.run(text, opts))
        acc.case(nontrivial_key=jhash(sub), outcome=family)
        d = cmp.diff_records(ref, r1, tol=tol)
        if d:
            acc.viols.append(Viol(sub, 'no-effect', 'edit-changes-result/%s/%s' % (sub['edit'].split('/')[0] + '/' + sub['edit'].split('/')[1]
                                                                                 if family in ('record', 'column') else family, d[0][0]),
                                  '%s: %s' % (sub['edit'], str(d[0])[:300]), inputs=dict(pdb=text0, edited=text, opts=list(opts))))
    eds = edit_list(s.items, ctx.tier)
    if case['src'] == 'oxt-no-ter':
        pass
    elif case['src'] != 'corpus':     # multi-conformation inputs: records and columns only
        eds = [e for e in eds if e[0] in ('record', 'column') and not e[1].startswith(('record/ENDMDL/', 'record/atom/')) or e[1] == 'record/ENDMDL/all-removed']
    for family, name, items in eds:
        compare(dict(case, edit=name), gen.to_text(items), (), family)
    if ctx.tier == 'thorough':
        byfam = {}
        for family, name, items in eds:
            byfam.setdefault(family, (name, items))
        reps = [(f, n, it) for f, (n, it) in byfam.items()]
        for (f1, n1, i1), (f2, n2, i2) in itertools.combinations(reps, 2):
            # apply edit 2's inserted items to edit 1's result when both are insertions; column rewrites compose by position
            if f2 == 'column' or f1 == 'column':
                continue
            extra = [x for x in i2 if all(x is not y for y in s.items)]
            merged = list(i1) + extra
            compare(dict(case, edit=n1 + '+' + n2), gen.to_text(merged), (), f1 + '+' + f2)
    # input hydrogens carrying an alternate-location letter (one that heavy atoms use, one that none uses): ignored like all others
    if case['src'] == 'c08':
        heavy = [it for it in s.items if not isinstance(it, str)]
        target = next((a for a in heavy if a.name == 'CB'), heavy[0])
        for alt in (' ', 'A', 'B', 'C', 'Z', '3'):
            h = target.clone()
            h.name4, h.alt, h.tail = ' HX ', alt, '           H'
            h.x, h.y, h.z = h.x + 700, h.y + 500, h.z - 400
            new = list(s.items)
            new.insert(s.items.index(target) + 1, h)
            compare(dict(case, edit='hydrogen/alt-loc-%s' % (alt.strip() or 'blank')), gen.to_text(new), (), 'hydrogen')
    # --protonate-all never changes a pKa
    r_pa = pk.record(pk.run(text0, ('--protonate-all',)))
    sub = dict(case, edit='option/protonate-all')
    acc.case(nontrivial_key=jhash(sub), outcome='protonate-all')
    d = cmp.diff_records(r0, r_pa, tol=1e-9)
    if d:
        acc.viols.append(Viol(sub, 'no-effect', 'protonate-all-changes-result/%s' % d[0][0], str(d[0])[:300],
                              inputs=dict(pdb=text0, opts=['--protonate-all'])))
    # the program's own hydrogens fed back with --keep-protons
    if amino_only(s) and case['src'] == 'corpus':
        items = hydrogens_fed_back(s, m0)
        sub = dict(case, edit='option/keep-protons-feedback')
        if items is None:
            acc.skipped += 1
        else:
            text = gen.to_text(items)
            r_k = pk.record(pk.run(text, ('--keep-protons',)))
            acc.case(nontrivial_key=jhash(sub), outcome='keep-protons')
            d = cmp.diff_records(r0, r_k, tol=1e-9)
            if d:
                acc.viols.append(Viol(sub, 'no-effect', 'keep-protons-feedback-changes-result/%s' % d[0][0], str(d[0])[:300],
                                      inputs=dict(pdb=text0, edited=text, opts=['--keep-protons'])))
            # --protonate-all changes nothing either when the input hydrogens are kept - also when they are not where the program
            # would put them
            moved = []
            for it in items:
                if not isinstance(it, str) and it.element == 'H':
                    it = it.clone()
                    it.x, it.y, it.z = it.x + 150, it.y - 100, it.z + 120
                moved.append(it)
            for nm, tx in (('own', text), ('displaced', gen.to_text(moved))):
                ra = pk.record(pk.run(tx, ('--keep-protons',)))
                rb = pk.record(pk.run(tx, ('--keep-protons', '--protonate-all')))
                acc.n += 1
                d = cmp.diff_records(ra, rb, tol=1e-9)
                if d:
                    acc.viols.append(Viol(dict(case, edit='option/protonate-all+keep-protons/%s-hydrogens' % nm), 'no-effect',
                                          'protonate-all-changes-result/with-keep-protons/%s' % d[0][0], str(d[0])[:300],
                                          inputs=dict(pdb=tx, opts=['--keep-protons', '--protonate-all'])))
            # and without the option the fed-back hydrogens are stripped
            r_s = pk.record(pk.run(text, ()))
            d = cmp.diff_records(r0, r_s, tol=1e-9)
            acc.n += 1
            if d:
                acc.viols.append(Viol(dict(case, edit='hydrogen/all-fed-back'), 'no-effect', 'edit-changes-result/hydrogen/%s' % d[0][0],
                                      str(d[0])[:300], inputs=dict(pdb=text0, edited=text)))

"""C01 - census: every ionizable group exactly once, right model pKa (reference automaton vs. the real reader)."""
import collections
import itertools
import math

from ..core import Acc, Viol, jhash
from .. import pk, gen

ID = 'C01'
LEVEL = 'model_checking'
LEVEL_TEXT = ('A 40-line reference automaton written from the statement (terminus rule, defining-atom table, model-pKa '
              'table) is stepped over every record stream of a bounded alphabet (residue tokens x numbering relation x '
              'chain relation x OXT x separator spelling, all sequences up to 3/4 tokens within a deviation bound) and '
              'over every 3-residue window of four real proteins, every ligand/ion template and whole structures; each '
              'stream is replayed through the real propka.run.single and the per-conformation groups, the average and '
              'the parsed summary section are compared with the automaton output as multisets; docked cysteine pairs '
              '(S-S along every axis direction, distances around the 2.5 A limit) under every titrate-only listing.')
LEVEL_NOTE = ('Trusts the reference automaton (pkmc/checks/c01.py: census), the chemical class written next to each '
              'hand-made ligand template and the .pka parser. Ligand groups of the real structures (MTX, KNI ...) have '
              'no chemistry-derived expectation and are not judged; nucleotides are pseudo-nucleotides (named ring N + methyl '
              'phosphate) that reach every entry of the custom model-pKa table, not full DNA geometry.')
TECHNIQUE = 'explicit enumeration of record streams; reference automaton stepped side by side with the real reader and group extraction (conformance checking)'
ASSUMPTIONS = ['single-model, single-alt-loc streams (multi-conformation inputs belong to C08)',
               'hetero records are transparent for the chain-start rule']

MODEL = {'ASP': 3.80, 'GLU': 4.50, 'HIS': 6.50, 'CYS': 9.00, 'TYR': 10.00, 'LYS': 10.50, 'ARG': 12.50,
         'N+': 8.00, 'C-': 3.20}
DEFINING = {('ASP', 'CG'): 'ASP', ('GLU', 'CD'): 'GLU', ('HIS', 'CG'): 'HIS', ('CYS', 'SG'): 'CYS',
            ('TYR', 'OH'): 'TYR', ('LYS', 'NZ'): 'LYS', ('ARG', 'CZ'): 'ARG'}
IGNORE = ('HOH', 'H2O', 'SO4', 'PO4', 'PEG', 'EPE', 'TRS')
SEPS = {'none': '', 'TER6': 'TER   \n', 'TERbare': 'TER\n', 'TERfull': 'TER    %4d      %3s %1s%4d%1s\n'}


# ------------------------------------------------------------------ reference automaton
def is_ter(line):
    return line[:3] == 'TER' and (len(line.rstrip('\n')) == 3 or line[3] in ' \n')


def census(items, chains=None, titrate_only=None):
    """Expected census of a single-conformation record stream, from the statement.

    Returns (groups, info): groups = list of dict(chain, resnum, icode, kind, model, bridged);
    info[residue key] = set of situation features used for class keys.
    """
    out = []
    info = collections.defaultdict(set)
    start, cur, cur_start = True, None, False
    prev_res, prev_oxt_res, last_sep = None, None, 'file-start'
    sgs = []
    states = transitions = 0
    for it in items:
        transitions += 1
        if isinstance(it, str):
            if is_ter(it):
                start = True
                last_sep = 'bareTER' if it.rstrip('\n') == 'TER' else 'TER'
            elif it[:6] == 'MODEL ':
                start = True
                last_sep = 'MODEL'
            continue
        a = it
        if a.resname in IGNORE:
            continue
        if chains and a.chain not in chains:
            continue
        if a.element == 'H':
            continue
        ch = a.chain.strip() or '_'
        if a.rec == 'ATOM  ':
            key = a.reskey
            if key != cur:
                states += 1
                if prev_res is not None:
                    if prev_res[0] == key[0] and prev_res[1] == key[1]:
                        info[key].add('shares-number-with-previous-residue')
                    if prev_res[0] != key[0] and last_sep not in ('TER', 'bareTER', 'MODEL') and not start:
                        info[key].add('chain-change-without-TER')
                if start and prev_oxt_res is not None and prev_oxt_res[1] == key[1]:
                    info[key].add('same-number-as-previous-OXT-residue')
                if start:
                    info[key].add('chain-start-after-' + last_sep)
                cur, cur_start, start = key, start, False
                prev_res = key
                last_sep = 'none'
            if a.name == 'N' and cur_start:
                out.append(dict(chain=ch, resnum=a.resnum, icode=a.icode, kind='N+', model=MODEL['N+'], res=key))
            if a.name in ('OXT', "O''"):
                out.append(dict(chain=ch, resnum=a.resnum, icode=a.icode, kind='C-', model=MODEL['C-'], res=key))
                if cur_start:
                    info[key].add('Cterm-within-3-bonds-of-own-Nterm')
                start = True
                prev_oxt_res = key
                last_sep = 'OXT'
            k = DEFINING.get((a.resname, a.name))
            if k:
                g = dict(chain=ch, resnum=a.resnum, icode=a.icode, kind=k, model=MODEL[k], res=key)
                out.append(g)
                if k == 'CYS':
                    sgs.append((a, g))
                if cur_start and k in ('ASP', 'CYS', 'HIS'):
                    info[key].add('sidechain-within-3-bonds-of-own-Nterm')
    for (a, g), (b, h) in itertools.combinations(sgs, 2):
        if (a.x - b.x) ** 2 + (a.y - b.y) ** 2 + (a.z - b.z) ** 2 < 2500 ** 2:
            g['bridged'] = h['bridged'] = True
    # a disulfide with a sulfur that is not a cysteine SG (thiol adducts such as BME, DTT, glutathione written as HETATM)
    sulfurs = [it for it in items if not isinstance(it, str) and it.element == 'S' and it.resname not in IGNORE and not (chains and it.chain not in chains)]
    for a, g in sgs:
        for b in sulfurs:
            if b is not a and (a.x - b.x) ** 2 + (a.y - b.y) ** 2 + (a.z - b.z) ** 2 < 2500 ** 2:
                g['bridged'] = True
    if titrate_only is not None:
        keep = set(titrate_only)
        out = [g for g in out if (g['chain'], g['resnum'], g['icode']) in keep]
    return out, info, states, transitions


def label(g):
    return '%-3s%4d%2s' % (g['kind'], g['resnum'], g['chain'])


# ------------------------------------------------------------------ observed census
PROT = set(MODEL)


def observed(mol, conf):
    out = []
    for g in mol.conformations[conf].groups:
        if not g.use_in_calculations():
            continue
        if g.atom.type != 'atom' or g.residue_type not in PROT:
            continue
        a = g.atom
        out.append(dict(chain=a.chain_id, resnum=a.res_num, icode=a.icode, kind=g.residue_type, model=g.model_pka,
                        pka=g.pka_value, titratable=g.titratable, bridge=a.cysteine_bridge, label=g.label))
    return out


def key4(g):
    return (g['chain'], g['resnum'], g['icode'], g['kind'])


def compare(case, items, opts, acc, chains=None, titrate_only=None, text=None, judge_hetero=None):
    """Run the stream through propka and compare with the automaton.  Returns list of class keys."""
    text = text if text is not None else gen.to_text(items)
    exp, info, states, transitions = census(items, chains, titrate_only)
    acc.extra['states'] += states
    acc.extra['transitions'] += transitions
    acc.extra['traces'] += 1
    try:
        mol = pk.run(text, opts, write=True)
    except ValueError as exc:
        if not any(not isinstance(i, str) for i in items) or 'does not seem to contain' in str(exc):
            acc.extra['rejected_empty'] += 1
            return [], exp, None
        raise
    viols = []
    expc = collections.Counter(key4(g) for g in exp)
    expg = {key4(g): g for g in exp}
    feats = lambda k: '+'.join(sorted(info.get((k[0] if k[0] != '_' else ' ', k[1], k[2]), []))) or 'plain'   # noqa: E731
    for conf in list(mol.conformation_names) + ['AVR']:
        obs = observed(mol, conf)
        obsc = collections.Counter(key4(g) for g in obs)
        tag = 'avr' if conf == 'AVR' else 'conf'
        for k in (expc - obsc):
            viols.append(('%s-missing/%s/%s' % (tag, k[3], feats(k)), 'expected %s not among groups of %s' % (k, conf)))
        for k in (obsc - expc):
            viols.append(('%s-spurious/%s/%s' % (tag, k[3], feats(k)), 'unexpected %s among groups of %s' % (k, conf)))
        for g in obs:
            e = expg.get(key4(g))
            if e is None:
                continue
            if abs(g['model'] - e['model']) > 1e-9:
                viols.append(('wrong-model-pka/%s' % g['kind'], '%s model %.2f expected %.2f' % (key4(g), g['model'], e['model'])))
            if e.get('bridged'):
                if g['titratable'] or abs(g['pka'] - 99.99) > 1e-9:
                    viols.append(('bridged-cys-titrates', '%s pka %.2f titratable=%s' % (key4(g), g['pka'], g['titratable'])))
            elif g['kind'] == 'CYS' and (abs(g['pka'] - 99.99) < 1e-9 or not g['titratable']) and titrate_only is None:
                viols.append(('free-cys-not-titrated', '%s pka %.2f' % (key4(g), g['pka'])))
    # summary section of the written file
    p = pk.parse_pka(mol._pka_text)
    sumc = collections.Counter()
    for row in p['summary']:
        if row['ltype']:
            continue   # ligand row
        kind = row['label'][:3].strip()
        if kind in PROT:
            sumc[row['label']] += 1
    explab = collections.Counter(label(g) for g in exp)
    lab2keys = collections.defaultdict(list)
    for g in exp:
        lab2keys[label(g)].append(key4(g))
    for lab in (explab - sumc):
        # residues that differ only in insertion code print the same label: the situation is the union of theirs
        ks = lab2keys[lab]
        fs = sorted({f for k in ks for f in feats(k).split('+') if f != 'plain'}) or ['plain']
        viols.append(('summary-missing/%s/%s' % (ks[0][3], '+'.join(fs)), 'summary lacks %r' % lab))
    for lab in (sumc - explab):
        viols.append(('summary-spurious/%s' % lab[:3].strip(), 'summary has unexpected %r' % lab))
    for row in p['summary']:
        kind = row['label'][:3].strip()
        if not row['ltype'] and kind in MODEL and abs(row['model'] - MODEL[kind]) > 0.005:
            viols.append(('summary-wrong-model-pka/%s' % kind, '%r model column %.2f' % (row['label'], row['model'])))
    if judge_hetero is not None:
        viols += judge_hetero(mol, p)
    seen = set()
    for ck, what in viols:
        if ck in seen:
            continue
        seen.add(ck)
        acc.viols.append(Viol(case, 'census', ck, what, inputs=dict(pdb=text, opts=list(opts))))
    return [ck for ck, _ in viols], exp, mol


# ------------------------------------------------------------------ S1 record streams
TOKEN_TYPES_Q = ('GLU', 'LYS', 'GLY')
TOKEN_TYPES_T = ('GLU', 'LYS', 'GLY', 'ASP', 'TYR')
NUMBERING = ('next', 'twin', 'same', 'restart')      # relative to the predecessor
CHAINREL = ('same', 'other', 'blank')
SEP = ('none', 'TER6', 'TERbare', 'TERfull')


def token_residue(rtype):
    """A complete residue of the type with real internal geometry, CA at the origin."""
    lib = gen.library()
    if rtype == 'GLY':
        src, cut = 'LEU', ('N', 'CA', 'C', 'O')
    else:
        src, cut = rtype, None
    for key, chain in (('3SGB', 'E'), ('3SGB', 'I'), ('1HPX', 'A')):
        try:
            i = lib.find(key, chain, src, 0)
            break
        except IndexError:
            continue
    atoms = [a.clone() for a in lib.protein_residues(key, chain)[i][1] if cut is None or a.name in cut]
    ca = [a for a in atoms if a.name == 'CA'][0]
    ox, oy, oz = ca.x, ca.y, ca.z
    for a in atoms:
        a.x -= ox
        a.y -= oy
        a.z -= oz
        a.resname = rtype
        a.alt = ' '
    return atoms


def add_oxt(atoms, name='OXT'):
    c = [a for a in atoms if a.name == 'C'][0]
    ca = [a for a in atoms if a.name == 'CA'][0]
    o = [a for a in atoms if a.name == 'O'][0]
    u = [c.x - ca.x, c.y - ca.y, c.z - ca.z]
    n = math.sqrt(sum(x * x for x in u))
    u = [x / n for x in u]
    w = [o.x - c.x, o.y - c.y, o.z - c.z]
    par = sum(a * b for a, b in zip(w, u))
    wpar = [par * x for x in u]
    wperp = [a - b for a, b in zip(w, wpar)]
    p = [c.x + wpar[0] - wperp[0], c.y + wpar[1] - wperp[1], c.z + wpar[2] - wperp[2]]
    x = o.clone()
    x.name4 = gen.name4(name)
    x.x, x.y, x.z = (int(round(v)) for v in p)
    return atoms + [x]


def build_stream(case, seed=0):
    """case['tokens'] = [(type, numbering, chainrel, oxt, sep, rec)], case['start'] = (number, chain)."""
    items = []
    num, chain = case['start']
    icode = ' '
    used = set()
    chains_pool = iter('BCDEFG')
    off = gen.seed_offset(seed)
    for i, (rtype, numbering, chainrel, oxt, sep, rec) in enumerate(case['tokens']):
        if i > 0:
            prevnum, prevchain = num, chain
            if chainrel == 'other':
                chain = next(chains_pool)
            elif chainrel == 'blank':
                chain = ' ' if chain != ' ' else 'Q'
            if numbering == 'next':
                num, icode = num + 1, ' '
            elif numbering == 'twin':
                icode = 'A' if icode == ' ' else chr(ord(icode) + 1)
            elif numbering == 'same':
                icode = ' '
            elif numbering == 'restart':
                num, icode = case['start'][0], ' '
        key = (chain, num, icode)
        if key in used:
            return None   # two residues with the same identity: not a valid structure
        used.add(key)
        if sep != 'none' and i > 0:
            s = SEPS[sep]
            items.append(s % (999, 'GLY', prevchain, prevnum, ' ') if '%' in s else s)
        atoms = token_residue(rtype)
        if oxt:
            atoms = add_oxt(atoms, "O''" if oxt == 2 else 'OXT')
        for a in atoms:
            a.chain, a.resnum, a.icode, a.rec = chain, num, icode, rec
            a.x += 40000 * i + off[0]
            a.y += off[1]
            a.z += off[2]
        items += atoms
    s = gen.S(items).renumber_serials(1 + (seed % 50))
    return s.items


def stream_cases(tier):
    types = TOKEN_TYPES_Q if tier == 'quick' else TOKEN_TYPES_T
    maxtok, maxdev = (3, 2) if tier == 'quick' else (3, 3)
    per_token = []
    for numbering, chainrel, oxt, sep in itertools.product(NUMBERING, CHAINREL, (0, 1), SEP):
        dev = (numbering != 'next') + (chainrel != 'same') + (oxt != 0) + (sep != 'none')
        per_token.append((dev, numbering, chainrel, oxt, sep))
    firsts = [(s, c, o) for s in (1, -5) for c in ('A', ' ') for o in (0, 1)]
    cases = []
    for n in range(1, maxtok + 1):
        for ts in itertools.product(types, repeat=n):
            for (s, c, o) in firsts:
                fdev = (s != 1) + (c != 'A') + (o != 0)
                for rest in itertools.product(per_token, repeat=n - 1):
                    dev = fdev + sum(r[0] for r in rest)
                    if dev > maxdev:
                        continue
                    toks = [(ts[0], 'next', 'same', o, 'none', 'ATOM  ')]
                    toks += [(ts[i + 1], r[1], r[2], r[3], r[4], 'ATOM  ') for i, r in enumerate(rest)]
                    cases.append(dict(kind='stream', start=(s, c), tokens=toks, dev=dev))
    if tier == 'thorough':   # 4 tokens, <= 2 deviations, 3 types
        for ts in itertools.product(TOKEN_TYPES_Q, repeat=4):
            for rest in itertools.product(per_token, repeat=3):
                dev = sum(r[0] for r in rest)
                if dev > 2:
                    continue
                toks = [(ts[0], 'next', 'same', 0, 'none', 'ATOM  ')]
                toks += [(ts[i + 1], r[1], r[2], r[3], r[4], 'ATOM  ') for i, r in enumerate(rest)]
                cases.append(dict(kind='stream', start=(1, 'A'), tokens=toks, dev=dev))
    # O'' spelling, hetero tokens between residues (ion after TER, ligand before first residue)
    extra = []
    for t in types:
        extra.append(dict(kind='stream', start=(1, 'A'), dev=1, tokens=[(t, 'next', 'same', 2, 'none', 'ATOM  '),
                                                                          ('GLU', 'next', 'same', 0, 'none', 'ATOM  ')]))
    return cases + extra


# ------------------------------------------------------------------ S4 windows, whole structures, templates
def window_cases(tier):
    lib = gen.library()
    cases = []
    for key in gen.PROTEINS:
        chains = sorted({k[0] for k, v in lib.protein_residues(key)})
        for ch in chains:
            res = lib.protein_residues(key, ch)
            step = 1 if tier == 'thorough' else 2
            for i in range(0, len(res) - 2, step):
                for oxt in (0, 1, 2):
                    cases.append(dict(kind='window', key=key, chain=ch, index=i, oxt=oxt))
    return cases


def build_window(case, seed=0):
    lib = gen.library()
    res = lib.protein_residues(case['key'], case['chain'])
    items = []
    for j in range(case['index'], case['index'] + 3):
        atoms = [a.clone() for a in res[j][1] if a.name not in ('OXT', "O''")]
        for a in atoms:
            a.alt = ' '
        if j == case['index'] + 2 and case['oxt'] and all(any(a.name == n for a in atoms) for n in ('C', 'CA', 'O')):
            atoms = add_oxt(atoms, 'OXT' if case['oxt'] == 1 else "O''")
        items += atoms
    s = gen.S(items)
    s.translate(gen.seed_offset(seed))
    return s.items


DNA_CUSTOM = {('DA', 'N1'): 3.82, ('DA', 'N3'): 3.82, ('DA', 'N7'): 3.82, ('DG', 'N1'): 9.59, ('DG', 'N3'): 9.59, ('DG', 'N7'): 9.59,
              ('DC', 'N3'): 4.34, ('DT', 'N3'): 10.12}
for _r in ('DA', 'DG', 'DC', 'DT'):
    DNA_CUSTOM[(_r, 'OP1')] = 1.00
    DNA_CUSTOM[(_r, 'OP2')] = 1.00


def dna_fragment(res, nname, chain='N', resnum=5):
    """Pseudo-nucleotide: an aromatic six-ring whose nitrogen carries the base atom name, plus a methyl phosphate whose
    terminal oxygens are OP1/OP2 - enough to reach the per-residue custom model pKa table (no full nucleotide geometry)."""
    ring = gen.ligand('PYR', chain, resnum, origin=(0, 0, 0))
    cnames = [n for n in ('C2', 'C4', 'C5', 'C6', 'C8') if n != nname]
    k = 0
    for a in ring.atoms:
        a.resname = '%-3s' % res
        if a.element == 'N':
            a.name4 = gen.name4(nname)
        else:
            a.name4 = gen.name4(cnames[k])
            k += 1
    pho = gen.ligand('MPO', chain, resnum, origin=(9000, 0, 0))
    ren = {'P1': 'P', 'O1': 'OP1', 'O2': 'OP2', 'O3': 'O3P', 'O4': "O5'", 'C1': "C5'"}
    for a in pho.atoms:
        a.resname = '%-3s' % res
        a.name4 = gen.name4(ren[a.name])
    return gen.S(ring.items + pho.items).renumber_serials()


def hetero_judge(expected_types, expected_ions, custom_models=None):
    """Oracle for ligand templates / ions: group type, model pKa, charge as configured for the type."""
    custom_models = custom_models or {}

    def judge(mol, parsed):
        v = []
        conf = mol.conformations[mol.conformation_names[0]]
        params = mol.version.parameters
        got = {}
        for g in conf.groups:
            if g.atom.type == 'hetatm' or g.atom.res_name.strip() in expected_ions:     # (an ion is an ion under either record name)
                got[(g.atom.res_name.strip(), g.atom.name)] = g
        for (res, name), typ in expected_types.items():
            g = got.get((res, name))
            if g is None or g.type != typ:
                v.append(('ligand-type/%s' % typ, '%s-%s expected group %s, got %s' % (res, name, typ, g.type if g else None)))
                continue
            model, charge = gen.LIGAND_TYPES[typ]
            cfg_model = params.model_pkas.get(typ)
            if (res, name) in custom_models:
                model = custom_models[(res, name)]
                cfg_model = params.custom_model_pkas.get('%s-%s' % (res, name))
            cfg_charge = params.charge.get(typ, 0)
            if model is None:
                if g.titratable or cfg_model is not None:
                    v.append(('ligand-titratable/%s' % typ, '%s should not titrate' % typ))
            else:
                if not g.titratable or abs(g.model_pka - model) > 1e-9 or cfg_model is None or abs(cfg_model - model) > 1e-9:
                    v.append(('ligand-model-pka/%s' % typ, '%s model %.2f titratable=%s expected %.2f' % (typ, g.model_pka, g.titratable, model)))
                if g.charge != charge or cfg_charge != charge:
                    v.append(('ligand-charge/%s' % typ, '%s charge %s expected %s' % (typ, g.charge, charge)))
                rows = [r for r in parsed['summary'] if r['ltype'] == typ]
                if len(rows) < 1:
                    v.append(('ligand-summary-missing/%s' % typ, 'no summary row with ligand type %s' % typ))
        for (res, name), typ in got.items():
            if (res, name) not in expected_types and res not in expected_ions and typ.type != 'ION':
                if typ.titratable:
                    v.append(('ligand-spurious/%s' % typ.type, 'unexpected titratable group %s on %s-%s' % (typ.type, res, name)))
        for res, q in expected_ions.items():
            gs = [g for (r, n), g in got.items() if r == res]
            if len(gs) != 1 or gs[0].type != 'ION' or gs[0].charge != q or gs[0].titratable:
                v.append(('ion/%s' % res, 'ion %s: %s' % (res, [(g.type, g.charge, g.titratable) for g in gs])))
        return v
    return judge


def plan(tier, seed):
    streams = [c for c in stream_cases(tier)]
    windows = window_cases(tier)
    others = [dict(kind='ligand', name=n, ctx=c) for n in gen.TEMPLATES for c in ('alone', 'peptide')]
    others += [dict(kind='ion', name=n, ctx=c) for n in gen.IONS for c in ('alone', 'peptide')]
    others += [dict(kind='ion', name=n, ctx='peptide', rec='ATOM  ') for n in gen.IONS]      # ions written as ATOM records (simulation packages)
    others += [dict(kind='dna', res=r, n=nn, ctx=c) for (r, nn) in sorted(DNA_CUSTOM) if nn.startswith('N') for c in ('alone', 'peptide')]
    others += [dict(kind='whole', key=k, chains=None) for k in (['3SGB', '1HPX'] if tier == 'quick' else list(gen.PROTEINS))]
    others += [dict(kind='whole', key='3SGB', chains=['E']), dict(kind='whole', key='3SGB', chains=['I']),
               dict(kind='whole', key='1HPX', chains=['B'])]
    others += [dict(kind='cfg-table')]
    # residues cut down to the backbone plus the defining atom of their group (no interaction atoms left)
    for rtype, keep in (('ASP', ('CB', 'CG')), ('GLU', ('CB', 'CG', 'CD')), ('HIS', ('CB', 'CG')), ('ARG', ('CB', 'CG', 'CD', 'CZ')),
                        ('TYR', ('CB', 'OH')), ('LYS', ('CB', 'NZ')), ('CYS', ('SG',))):
        for pos in (0, 1, 2):
            others.append(dict(kind='stripped', rtype=rtype, keep=list(keep), pos=pos))
    # multi-conformation inputs whose conformations complete each other (alt-loc partial alternates, models with missing
    # atoms): every conformation must show the census of the complete residue, also under titrate-only / chain selection
    for lay in ([(' ', 'ASP'), ('B', 'ASPs')], [('A', 'ASP'), ('B', 'ASPs'), ('C', 'ASP')], [('1', 'ASPs'), ('2', 'ASP')]):
        for partial in (False, True):
            others.append(dict(kind='layout', how='alt', layout=lay, partial=partial))
    for lay in ([(1, 'ASP'), (2, 'ASPnoCG')], [(1, 'ASPnoCG'), (2, 'ASP')], [(1, 'ASP'), (2, 'ASPnoCG'), (3, 'ASPs')]):
        others.append(dict(kind='layout', how='model', layout=lay))
    # alt-loc / model point mutants, also at the chain ends: the average lists every site exactly once (a terminus is one site
    # whatever side chain the residue carries in a conformation)
    for pos in ('first', 'middle', 'last'):
        for lay in ([('A', 'ASP'), ('B', 'ALA')], [('A', 'ALA'), ('B', 'ASP')], [('A', 'ALA'), ('B', 'ASP'), ('C', 'ASPs')]):
            others.append(dict(kind='layout-mutant', how='alt', layout=lay, pos=pos))
        for lay in ([(1, 'ASP'), (2, 'ALA')], [(1, 'ALA'), (2, 'ASP'), (3, 'ALA')]):
            others.append(dict(kind='layout-mutant', how='model', layout=lay, pos=pos))
    # alternate locations on one single atom (every atom of the first / a middle / the last residue in turn): every
    # conformation and the average still hold every site exactly once
    for pos in ('first', 'middle', 'last'):
        for atom in ('N', 'CA', 'C', 'O', 'CB', 'CG', 'OD1', 'OD2') + (('OXT',) if pos == 'last' else ()):
            for tags in (('A', 'B'), (' ', 'B'), ('A', 'B', 'C')):
                others.append(dict(kind='alt-atom', pos=pos, atom=atom, tags=list(tags)))
    # two cysteines docked SG-SG: bridged below 2.5 A whatever the direction of the S-S vector and whatever is listed
    for d in ((2.03, 2.499, 2.6) if tier == 'quick' else (2.0, 2.03, 2.2, 2.4, 2.499, 2.501, 2.6, 3.0)):
        for orient in ('dock', '+x', '-x', '+y', '-y', '+z', '-z', 'diag'):
            others.append(dict(kind='bridge', d=d, orient=orient))
            if orient in ('+x', '-y', '+z') and 2.3 <= d < 2.5:
                for shift in (400, 800, 1200, 1600, 2000):
                    others.append(dict(kind='bridge', d=d, orient=orient, shift=shift))
            if orient in ('dock', '+x', 'diag'):
                others.append(dict(kind='bridge', d=d, orient=orient, partner='MSH'))      # a thiol ligand on the cysteine
    allc = streams + windows
    size = 400
    shards = [allc[i:i + size] for i in range(0, len(allc), size)] + [[c] for c in others]
    return dict(shards=shards, exhaustive=True,
                rule=('record streams: every sequence of <= 3 residue tokens (types %s; thorough adds ASP, TYR and 4-token '
                      'sequences) x numbering relation {next, insertion-code twin, same number, restart} x chain relation '
                      '{same, other, blank} x OXT x separator {none, "TER   ", bare "TER", full TER record} x first-token '
                      '{start 1/-5, chain A/blank, OXT}, within a deviation bound of %d non-default attributes; streams with '
                      'two residues of equal identity are invalid and skipped; plus every 3-residue window of 4 proteins '
                      '(with/without OXT or O\'\' on the last residue), every ligand template and ion alone and next to a '
                      'peptide, whole structures with and without chain selection. Streams with <= 1 deviation are also '
                      'run with chain selection and titrate-only settings. residues cut down to the defining atom of their group; alt-loc / MODEL layouts that complete each other and point mutants at the first, middle and last residue; alternate locations on one single atom (every atom of the first / a middle / the last residue in turn); pseudo-nucleotides for every entry of the custom model-pKa table; docked cysteine pairs (S-S along 8 directions, distances around 2.5 A, thiol ligand partner) under every titrate-only listing. non-trivial = distinct streams whose expected '
                      'census is non-empty') % (TOKEN_TYPES_Q, 2 if tier == 'quick' else 3),
                bounds=dict(max_tokens=3 if tier == 'quick' else 4, max_deviations=2 if tier == 'quick' else 3,
                            streams=len(streams), windows=len(windows), others=len(others)),
                samples=[streams[len(streams) // 2], windows[3]])


def run_case(case, ctx, acc):
    k = case['kind']
    if k == 'stream':
        items = build_stream(case, ctx.seed)
        if items is None:
            acc.skipped += 1
            acc.extra['invalid_duplicate_identity'] += 1
            return
        cks, exp, mol = compare(case, items, (), acc)
        acc.case(nontrivial_key=jhash(case) if exp else None,
                 outcome=jhash(sorted(key4(g)[1:] for g in exp)), sample=dict(case=case, text=gen.to_text(items)[:400]))
        if case['dev'] <= 1:
            # the same stream as two / three identical models and as a single model with a number of its own:
            # every conformation and the average must show the census of one model (terminus flags restart per MODEL)
            one = gen.to_text(items)
            for nums in ((1, 2), (3,), (1, 2, 5)):
                multi = ''.join('MODEL     %4d\n%sENDMDL\n' % (n, one) for n in nums)
                compare(dict(case, models=list(nums)), items, (), acc, text=multi)
                acc.n += 1
            # a hetero record (ion) as first coordinate record of the file and after every residue boundary: transparent
            # for the chain-start rule; the ion itself must be reported as an ion group
            bounds = [0]
            for q in range(1, len(items)):
                a, b = items[q - 1], items[q]
                if isinstance(b, str):
                    continue
                if isinstance(a, str) or a.reskey != b.reskey:
                    bounds.append(q)
            for q in bounds:
                ref = next(i for i in items[q:] + items[:q][::-1] if not isinstance(i, str))
                ion_ = gen.ion('CA', 'M', 950 + q, at=(ref.x + 1000, ref.y + 15000, ref.z - 12000)).atoms[0]
                with_ion = items[:q] + [ion_] + items[q:]
                compare(dict(case, hetero_at=q), with_ion, (), acc, judge_hetero=hetero_judge({}, {'CA': 2}))
                acc.n += 1
            atoms = [i for i in items if not isinstance(i, str)]
            chains = sorted({a.chain for a in atoms})
            if len(chains) > 1:
                for ch in chains:
                    compare(dict(case, sel=[ch]), items, ('-c', ch), acc, chains=[ch])
                    acc.n += 1
            reskeys = list(collections.OrderedDict(((a.chain.strip() or '_', a.resnum, a.icode), 1) for a in atoms))
            for sel in ([reskeys[0]], reskeys):
                arg = ','.join('%s:%d%s' % (c, n, i.strip()) for c, n, i in sel)
                compare(dict(case, titrate_only=arg), items, ('-i', arg), acc, titrate_only=sel)
                acc.n += 1
    elif k == 'window':
        items = build_window(case, ctx.seed)
        cks, exp, mol = compare(case, items, (), acc)
        acc.case(nontrivial_key=jhash(case) if exp else None, outcome=jhash(sorted(key4(g)[3] for g in exp)))
    elif k in ('ligand', 'ion'):
        name = case['name']
        if k == 'ligand':
            s = gen.ligand(name, 'L', 900)
            types = {(name, an): t for an, t in gen.TEMPLATES[name][1].items()}
            ions = {}
        else:
            s = gen.ion(name, 'M', 901, at=(10000, 10000, 10000))
            for a in s.atoms:
                a.rec = case.get('rec', 'HETATM')
            types, ions = {}, {name: gen.IONS[name]}
        items = s.items
        if case['ctx'] == 'peptide':
            pep = gen.S(build_window(dict(key='3SGB', chain='I', index=20, oxt=1)))
            far = s.copy().translate((60000, 0, 0))
            items = pep.items + ['TER\n'] + far.items
        cks, exp, mol = compare(case, items, (), acc, judge_hetero=hetero_judge(types, ions))
        acc.case(nontrivial_key=jhash(case), outcome='%s:%s' % (k, name))
    elif k == 'dna':
        frag = dna_fragment(case['res'], case['n'])
        types = {(case['res'], case['n']): 'NAR', (case['res'], 'OP1'): 'OP', (case['res'], 'OP2'): 'OP', (case['res'], 'O3P'): 'OP',
                 (case['res'], "O5'"): 'O3'}
        custom = {kk: v for kk, v in DNA_CUSTOM.items() if kk[0] == case['res']}
        items = frag.translate((10000, 10000, 10000)).items
        if case['ctx'] == 'peptide':
            pep = gen.S(build_window(dict(key='3SGB', chain='I', index=20, oxt=1)))
            items = pep.items + ['TER\n'] + frag.translate((60000, 0, 0)).items
        cks, exp, mol = compare(case, items, (), acc, judge_hetero=hetero_judge(types, {}, custom))
        acc.case(nontrivial_key=jhash(case), outcome='dna:%s-%s' % (case['res'], case['n']))
    elif k == 'whole':
        lib = gen.library()
        text = lib.text(case['key'])
        s = gen.parse_text(text)
        items = [i for i in s.items if isinstance(i, str) or i.alt in (' ', 'A')]
        if any(a.alt not in (' ',) for a in s.atoms):
            acc.extra['whole_with_altloc_skipped'] += 1
            if case['key'] == '1FTJ':
                pass
        opts = ()
        if case['chains']:
            for c in case['chains']:
                opts += ('-c', c)
        # multi-conformation files are judged on the first alt-loc's census only if they have a single conformation
        if len({a.alt for a in s.atoms}) > 1:
            acc.skipped += 1
            return
        cks, exp, mol = compare(case, s.items, opts, acc, chains=case['chains'], text=text)
        acc.case(nontrivial_key=jhash(case), outcome='whole:%s:%d' % (case['key'], len(exp)))
    elif k == 'layout-mutant':
        from . import c08
        d = dict(kind=case['how'], layout=[tuple(x) for x in case['layout']], pos=case['pos'])
        text = gen.to_text(c08.build(d, ctx.seed))
        full = c08.build(dict(kind='alt', layout=[(' ', 'ASP')], pos=case['pos']), ctx.seed)     # every site that exists in some conformation
        exp, info, st, tr = census(full.items)
        mol = pk.run(text, (), write=True)
        want = collections.Counter(key4(g) for g in exp)
        got = collections.Counter(key4(g) for g in observed(mol, 'AVR'))
        acc.case(nontrivial_key=jhash(case), outcome='layout-mutant')
        acc.extra['states'] += st
        acc.extra['transitions'] += tr
        for kk in (want - got):
            acc.viols.append(Viol(case, 'census', 'avr-missing/%s/point-mutant-%s' % (kk[3], case['pos']), 'expected %s in the average' % (kk,), inputs=dict(pdb=text)))
        for kk in (got - want):
            acc.viols.append(Viol(case, 'census', 'avr-spurious/%s/point-mutant-%s' % (kk[3], case['pos']), '%s listed %d times in the average' % (kk, got[kk]), inputs=dict(pdb=text)))
        sumc = collections.Counter(r['label'] for r in pk.parse_pka(mol._pka_text)['summary'] if not r['ltype'])
        for g in exp:
            if g['kind'] == 'ASP' and 'sidechain-within-3-bonds-of-own-Nterm' in info.get(g['res'], ()):
                continue
            if sumc[label(g)] != 1 and not (g['kind'] == 'C-' and 'Cterm-within-3-bonds-of-own-Nterm' in info.get(g['res'], ())):
                acc.viols.append(Viol(case, 'census', 'summary-count/%s/point-mutant-%s' % (g['kind'], case['pos']), 'summary lists %r %d times' % (label(g), sumc[label(g)]),
                                      inputs=dict(pdb=text)))
    elif k == 'alt-atom':
        from . import c08
        text = gen.to_text(c08.build(dict(kind='alt-atom', tags=case['tags'], pos=case['pos'], atom=case['atom']), ctx.seed))
        full = c08.build(dict(kind='alt', layout=[(' ', 'ASP')], pos=case['pos']), ctx.seed)
        exp, info, st, tr = census(full.items)
        mol = pk.run(text, (), write=True)
        want = collections.Counter(key4(g) for g in exp)
        acc.case(nontrivial_key=jhash(case), outcome='alt-atom:%d' % len(mol.conformation_names))
        acc.extra['states'] += st
        acc.extra['transitions'] += tr
        if len(mol.conformation_names) != len(case['tags']):
            acc.viols.append(Viol(case, 'census', 'conformations/alt-atom', 'conformations %r for alternate locations %r' % (
                list(mol.conformation_names), case['tags']), inputs=dict(pdb=text)))
        for cname in list(mol.conformation_names) + ['AVR']:
            got = collections.Counter(key4(g) for g in observed(mol, cname))
            where = 'avr' if cname == 'AVR' else 'conf'
            for kk in (want - got):
                acc.viols.append(Viol(case, 'census', '%s-missing/%s/alt-atom-%s' % (where, kk[3], case['pos']), 'expected %s in %s' % (kk, cname), inputs=dict(pdb=text)))
            for kk in (got - want):
                acc.viols.append(Viol(case, 'census', '%s-spurious/%s/alt-atom-%s' % (where, kk[3], case['pos']), '%s listed %d times in %s' % (kk, got[kk], cname),
                                      inputs=dict(pdb=text)))
        sumc = collections.Counter(r['label'] for r in pk.parse_pka(mol._pka_text)['summary'] if not r['ltype'])
        for g in exp:
            if g['kind'] == 'ASP' and 'sidechain-within-3-bonds-of-own-Nterm' in info.get(g['res'], ()):
                continue
            if sumc[label(g)] != 1 and not (g['kind'] == 'C-' and 'Cterm-within-3-bonds-of-own-Nterm' in info.get(g['res'], ())):
                acc.viols.append(Viol(case, 'census', 'summary-count/%s/alt-atom-%s' % (g['kind'], case['pos']), 'summary lists %r %d times' % (label(g), sumc[label(g)]),
                                      inputs=dict(pdb=text)))
    elif k == 'cfg-table':
        cfg_table(case, acc)
    elif k == 'bridge':
        s = gen.pair('CYS', case.get('partner', 'CYS'), case['d'])
        sg = [a for a in s.atoms if a.element == 'S']
        if case['orient'] != 'dock':
            target = {'+x': [1, 0, 0], '-x': [-1, 0, 0], '+y': [0, 1, 0], '-y': [0, -1, 0], '+z': [0, 0, 1], '-z': [0, 0, -1],
                      'diag': [1, 1, 1]}[case['orient']]
            R = gen.rotmat([sg[1].x - sg[0].x, sg[1].y - sg[0].y, sg[1].z - sg[0].z], target)
            for a in s.atoms:
                c = (a.x, a.y, a.z)
                a.x, a.y, a.z = (int(round(sum(R[i][j] * c[j] for j in range(3)))) for i in range(3))
        s.translate(gen.seed_offset(ctx.seed))
        if case.get('shift'):      # slide the pair along the bond direction (positions relative to any spatial grid of the bond search)
            s.translate(tuple(case['shift'] * c for c in target))
        keys = [(a.chain, a.resnum, a.icode) for a in sg if a.rec == 'ATOM  ']
        other = [(a.chain, a.resnum, a.icode) for a in s.atoms if a.rec == 'ATOM  ' and (a.chain, a.resnum, a.icode) not in keys][:1]
        arg = lambda ks: ','.join('%s:%d%s' % (c, n, i.strip()) for c, n, i in ks)   # noqa: E731
        for sel in (None, keys[:1], keys[1:], keys, other, other + keys[:1]):
            if sel is not None and not sel:
                continue
            if sel is None:
                compare(dict(case, titrate_only=None), s.items, (), acc)
            else:
                compare(dict(case, titrate_only=arg(sel)), s.items, ('-i', arg(sel)), acc, titrate_only=sel)
            acc.n += 1
        dist = math.sqrt(sum((getattr(sg[0], c) - getattr(sg[1], c)) ** 2 for c in 'xyz')) / 1000.0
        acc.case(nontrivial_key=jhash(case), outcome='bridge:%s' % ('bridged' if dist < 2.5 else 'free'))
    elif k == 'stripped':
        items = []
        for i in range(3):
            rt = case['rtype'] if i == case['pos'] else 'GLY'
            atoms = token_residue(rt)
            if i == case['pos']:
                atoms = [a for a in atoms if a.name in gen.BACKBONE or a.name in case['keep']]
            if i == 2:
                atoms = add_oxt(atoms)
            for a in atoms:
                a.chain, a.resnum = 'A', 10 + i
                a.x += 40000 * i    # residues far apart, as in the record streams (connectivity is irrelevant for the census)
            items += atoms
        cks, exp, mol = compare(case, gen.S(items).translate(gen.seed_offset(ctx.seed)).items, (), acc)
        acc.case(nontrivial_key=jhash(case), outcome='stripped')
    elif k == 'layout':
        from . import c08
        d = dict(kind=case['how'], layout=case['layout'])
        if case.get('partial'):
            d['partial'] = True
        text = gen.to_text(c08.build(d, ctx.seed))
        pre, mid, post, lys = c08.base_parts()
        one = gen.S([a.clone() for a in pre + mid + post] + ['TER\n'] + [a.clone() for a in lys] + ['TER\n']).translate(gen.seed_offset(ctx.seed))
        for sel, opts, kw in ((None, (), {}), ('titrate', ('-i', 'A:2'), dict(titrate_only=[('A', 2, ' ')])),
                              ('titrate-all', ('-i', 'A:1,A:2,A:3,B:11,B:12,B:13'), dict(titrate_only=[('A', 1, ' '), ('A', 2, ' '), ('A', 3, ' '), ('B', 11, ' '), ('B', 12, ' '), ('B', 13, ' ')])),
                              ('chain', ('-c', 'A'), dict(chains=['A']))):
            compare(dict(case, sel=sel), one.items, opts, acc, text=text, **kw)
            acc.n += 1
        acc.case(nontrivial_key=jhash(case), outcome='layout')


def cfg_table(case, acc):
    """The tables the census is checked against: statement values vs. the shipped parameter file."""
    import propka.parameters
    import propka.input
    import propka.lib
    opts = propka.lib.loadOptions(['x.pdb'])
    p = propka.input.read_parameter_file(opts.parameters, propka.parameters.Parameters())
    acc.case(nontrivial_key='cfg-table', outcome='cfg')
    for kind, val in MODEL.items():
        if abs(p.model_pkas.get(kind, -99) - val) > 1e-9:
            acc.viols.append(Viol(case, 'tables', 'cfg-model-pka/%s' % kind, 'model_pkas[%s]=%s' % (kind, p.model_pkas.get(kind))))
    for (res, name), kind in DEFINING.items():
        cls = p.protein_group_mapping.get('%s-%s' % (res, name))
        want = {'ASP': 'COO', 'GLU': 'COO'}.get(kind, kind)
        if cls != want:
            acc.viols.append(Viol(case, 'tables', 'cfg-mapping/%s' % kind, '%s-%s -> %s' % (res, name, cls)))
    for name, q in gen.IONS.items():
        if p.ions.get(name) != q:
            acc.viols.append(Viol(case, 'tables', 'cfg-ion/%s' % name, 'ions[%s]=%s' % (name, p.ions.get(name))))

"""C20 - rotate_vector_around_an_axis is the right-handed Rodrigues rotation for every axis family."""
import itertools
import math

from ..core import Acc, Viol
from .. import pk  # noqa: F401  (binds the tree under test)
from propka.vector_algebra import Vector, rotate_vector_around_an_axis

ID = 'C20'
LEVEL = 'exploration'
LEVEL_TEXT = ('Exhaustive enumeration of an (axis, angle, vector) lattice that contains every measure-zero family of '
              'the case split in the implementation (axis components exactly zero, axes along/opposite each '
              'coordinate axis, in each coordinate plane, and each of these perturbed by +-1e-9), compared with the '
              'closed-form Rodrigues rotation plus the three invariants of the statement.')
LEVEL_NOTE = ('Reference: Rodrigues formula in pkmc/checks/c20.py. Generic (non-lattice) axes are represented by the '
              'lattice points with three non-zero components; tolerance 1e-9*|v| on the lattice, 1e-6*|v| for the '
              'perturbed families (asin/acos conditioning at the split).')
TECHNIQUE = 'exhaustive enumeration of a finite lattice of inputs against a closed-form reference model'
ASSUMPTIONS = ['angles outside [-2pi, 2pi] and axes with |component| ratio beyond 1e9 are not enumerated']

COMP = (-2.0, -1.0, -0.5, 0.0, 0.5, 1.0, 2.0)
VCOMP = (-1.0, 0.0, 1.5)


def angles(tier):
    a = [math.radians(15.0 * k) for k in range(0, 24)]
    a += [math.radians(109.5), math.radians(-109.5), math.pi, -math.pi, 2 * math.pi, math.radians(-120.0),
          math.radians(-90.0), 1e-9]
    if tier == 'thorough':
        a += [math.radians(7.5 * k) for k in range(1, 48, 2)] + [-x for x in a[1:24]]
    return a


def axes(tier):
    out = [ax for ax in itertools.product(COMP, repeat=3) if any(ax)]
    pert = []
    eps_list = (1e-9, -1e-9) if tier == 'quick' else (1e-9, -1e-9, 1e-12, -1e-12, 1e-6, -1e-6)
    for ax in out:
        zeros = [i for i in range(3) if ax[i] == 0.0]
        if not zeros:
            continue
        if tier == 'quick' and max(abs(c) for c in ax) != 1.0:
            continue
        for eps in eps_list:
            for i in zeros:
                p = list(ax)
                p[i] = eps
                pert.append(tuple(p))
            if len(zeros) == 2:
                p = list(ax)
                p[zeros[0]] = eps
                p[zeros[1]] = -eps
                pert.append(tuple(p))
                p = list(ax)
                p[zeros[0]] = eps
                p[zeros[1]] = eps
                pert.append(tuple(p))
    return out, sorted(set(pert))


SCALES = (1e-12, 1e-9, 1e-6, 1e-3, 1e3, 1e9)


def scaled_axes(tier):
    """The rotation does not depend on the length of the axis: every sign pattern of {-1,0,1}^3 and a few generic axes, rescaled."""
    base = [ax for ax in itertools.product((-1.0, 0.0, 1.0), repeat=3) if any(ax)] + [(1.0, 2.0, 3.0), (-0.5, 2.0, -1.0), (2.0, -0.5, 0.5)]
    out = []
    for ax in base:
        for sc in (SCALES if tier == 'thorough' else SCALES[:2] + SCALES[-1:]):
            out.append(tuple(c * sc for c in ax))
    return out


VEC_SCALES = (0.0, 1e-200, 1e-165, 1e-30, 1e30, 1e150, 1e160)


def plan(tier, seed):
    exact, pert = axes(tier)
    scaled = scaled_axes(tier)
    shards = [('exact', exact[i::32]) for i in range(32)] + [('pert', pert[i::16]) for i in range(16)] + [('scaled', scaled[i::8]) for i in range(8)]
    shards += [('vecscale', exact[i::4]) for i in range(4)] + [('objects', exact[i::4]) for i in range(4)]
    shards += [('callpairs', [i]) for i in range(8)]
    return dict(shards=shards, exhaustive=True,
                rule=('all axes in {-2,-1,-.5,0,.5,1,2}^3 minus 0 (342) plus every zero component of those replaced by '
                      '+-1e-9 (thorough: also 1e-12, 1e-6); angles k*15 deg, +-109.5, +-pi, 2pi, -120, -90, 1e-9 '
                      '(thorough: also k*7.5 deg and negatives); vectors {-1,0,1.5}^3 minus 0 plus the axis itself and '
                      'two vectors orthogonal to it; the zero vector and vectors scaled by 1e-200 ... 1e160; sequences on one axis object (length taken, '
                      'components re-assigned, rotated again); every ordered pair of calls over 64 (thorough 342) axes, each pair in a process of its own. non-trivial = distinct triples whose rotation is not the identity '
                      '(angle not a multiple of 2pi and vector not parallel to the axis)'),
                bounds=dict(axes_exact=len(exact), axes_perturbed=len(pert), angles=len(angles(tier))),
                samples=[dict(axis=[0, 0, -1], angle_deg=90, vec=[1, 0, 0], expect=[0, -1, 0])])


def rodrigues(theta, k, v):
    n = math.sqrt(sum(c * c for c in k))
    k = [c / n for c in k]
    c, s = math.cos(theta), math.sin(theta)
    kxv = [k[1] * v[2] - k[2] * v[1], k[2] * v[0] - k[0] * v[2], k[0] * v[1] - k[1] * v[0]]
    kv = sum(a * b for a, b in zip(k, v))
    return [v[i] * c + kxv[i] * s + k[i] * kv * (1 - c) for i in range(3)]


def family(ax):
    big = max(abs(c) for c in ax)
    if big < 1e-4 or big > 1e2:
        return 'scaled-%s/%s' % ('short' if big < 1 else 'long', ''.join('+' if c > 0 else '-' if c < 0 else '0' for c in ax))
    z = tuple(0 if abs(c) == 0.0 else (2 if abs(c) < 1e-5 else 1) for c in ax)
    names = {0: '0', 1: 'x', 2: 'e'}
    sg = ''.join('+' if c > 0 else '-' if c < 0 else '0' for c in ax)
    return ''.join(names[i] for i in z) + '/' + sg


def one(ax, th, v, tol):
    """Oracle for one triple -> None or (class_key, what)."""
    axv, vv = Vector(*ax), Vector(*v)
    got = rotate_vector_around_an_axis(th, axv, vv)
    if (axv.x, axv.y, axv.z) != tuple(ax) or (vv.x, vv.y, vv.z) != tuple(v):
        return ('arguments-modified', 'axis %r -> %r, vector %r -> %r' % (ax, (axv.x, axv.y, axv.z), v, (vv.x, vv.y, vv.z)))
    again = rotate_vector_around_an_axis(th, axv, vv)     # the same objects used a second time
    if (again.x, again.y, again.z) != (got.x, got.y, got.z):
        return ('second-call-differs', 'axis %r angle %r vec %r: %r then %r' % (ax, th, v, (got.x, got.y, got.z), (again.x, again.y, again.z)))
    g = [got.x, got.y, got.z]
    exp = rodrigues(th, ax, v)
    lv = math.sqrt(sum(c * c for c in v))
    err = max(abs(a - b) for a, b in zip(g, exp))
    if err <= tol * lv:
        return None
    # which invariant breaks
    n = math.sqrt(sum(c * c for c in ax))
    k = [c / n for c in ax]
    lg = math.sqrt(sum(c * c for c in g))
    if abs(lg - lv) > tol * lv * 10:
        inv = 'length'
    elif abs(sum(a * b for a, b in zip(k, g)) - sum(a * b for a, b in zip(k, v))) > tol * lv * 10:
        inv = 'axial-component'
    else:
        inv = 'turn-angle'
    return ('wrong-rotation/%s/axis-family=%s' % (inv, family(ax)),
            'axis=%r angle=%.6f vec=%r: got %r expected %r' % (ax, th, v, [round(c, 9) for c in g], [round(c, 9) for c in exp]))


def vectors(ax):
    vs = [v for v in itertools.product(VCOMP, repeat=3) if any(v)]
    vs.append(tuple(ax))
    o = (ax[1], -ax[0], 0.0) if (ax[0] or ax[1]) else (ax[2], 0.0, -ax[0])
    vs.append(o)
    vs.append((ax[1] * o[2] - ax[2] * o[1], ax[2] * o[0] - ax[0] * o[2], ax[0] * o[1] - ax[1] * o[0]))
    return [v for v in vs if any(v)]


def _callpair(case):
    vec = tuple(case['vec'])
    lv = math.sqrt(sum(c * c for c in vec))
    rotate_vector_around_an_axis(case['angle'], Vector(*case['axis']), Vector(*vec))
    for which, ax in (('second', case['axis2']), ('first-again', case['axis'])):
        got = rotate_vector_around_an_axis(case['angle'], Vector(*ax), Vector(*vec))
        exp = rodrigues(case['angle'], tuple(ax), vec)
        if max(abs(a - b) for a, b in zip([got.x, got.y, got.z], exp)) > 1e-9 * lv:
            return ('wrong-rotation/after-another-call/%s' % which, 'axis %r after axis %r: got %r expected %r' % (ax, case['axis'], [got.x, got.y, got.z], exp))
    return None


def run_shard(shard, ctx):
    acc = Acc()
    kind, axs = shard
    if kind == 'vecscale':
        # the vector being rotated may be the zero vector, or very short or very long: the rotation is linear in it
        for ax in axs[:: (4 if ctx.tier == 'quick' else 1)]:
            for th in (math.radians(90.0), math.radians(-109.5), math.radians(33.0)):
                for v in ((1.0, 0.0, 0.0), (-1.0, 0.5, 1.5)):
                    for sc in VEC_SCALES:
                        run_case(dict(kind='vecscale', axis=list(ax), angle=th, vec=list(v), scale=sc), ctx, acc)
        return acc
    if kind == 'callpairs':
        # every ordered pair of calls with axes from {-2,-1,-0.5,0.5,1,2}^3 (thorough: plus 0) in one process: the second call
        # is judged, then the first one again
        comp = (-2.0, -1.0, 1.0, 2.0) if ctx.tier == 'quick' else (-2.0, -1.0, -0.5, 0.0, 0.5, 1.0, 2.0)
        allax = [a for a in itertools.product(comp, repeat=3) if any(a)]
        th, v = math.radians(75.0), (1.0, -2.0, 0.5)
        from ..core import fresh
        for k1 in range(axs[0], len(allax), 8):
            for a2 in allax:
                # each pair in a process of its own (a fork of this worker, which has not called the function yet), so that a
                # failure can only come from the first call of the pair
                case = dict(kind='callpair', axis=list(allax[k1]), axis2=list(a2), angle=th, vec=list(v))
                r = fresh(_callpair, case)
                acc.n += 1
                acc.nontrivial_n += 1
                if isinstance(r, dict) and r.get('died'):
                    raise RuntimeError(r['died'])
                if r:
                    acc.viols.append(Viol(case, 'rodrigues', r[0], r[1]))
                else:
                    acc.outcomes['callpair-ok'] += 1
        return acc
    if kind == 'objects':
        for ax in axs[:: (4 if ctx.tier == 'quick' else 1)]:
            for ax2 in ((0.0, 0.0, -1.0), (2.0, -1.0, 0.5), (0.0, 3.0, 0.0), (0.1, 0.1, 0.1), (5.0, 5.0, -7.0)):
                for pre in ('length', 'rescale', 'rotate', 'none'):
                    run_case(dict(kind='objects', axis=list(ax), axis2=list(ax2), pre=pre, angle=math.radians(75.0), vec=[1.0, -2.0, 0.5]), ctx, acc)
        return acc
    tol = 1e-6 if kind == 'pert' else 1e-9
    angs = angles(ctx.tier)
    for ax in axs:
        seen = 0
        for v in vectors(ax):
            par = abs(v[0] * ax[1] - v[1] * ax[0]) + abs(v[1] * ax[2] - v[2] * ax[1]) + abs(v[0] * ax[2] - v[2] * ax[0]) < 1e-12
            for th in angs:
                acc.n += 1
                if not par and abs(math.sin(th / 2)) > 1e-6:
                    acc.nontrivial_n += 1
                r = one(ax, th, v, tol)
                acc.outcomes['ok' if r is None else r[0]] += 1
                if r is not None and seen < 2:
                    seen += 1
                    acc.viols.append(Viol(dict(axis=list(ax), angle=th, vec=list(v), tol=tol), 'rodrigues', r[0], r[1]))
    return acc


def run_case(case, ctx, acc):
    if case.get('kind') == 'vecscale':
        acc.n += 1
        acc.nontrivial_n += 1
        sc = case['scale']
        v = tuple(c * sc for c in case['vec'])
        ax = tuple(case['axis'])
        try:
            got = rotate_vector_around_an_axis(case['angle'], Vector(*ax), Vector(*v))
            g = [got.x, got.y, got.z]
        except Exception as exc:   # noqa: BLE001
            acc.viols.append(Viol(case, 'rodrigues', 'rotation-raises/%s/vector-scale=%g' % (type(exc).__name__, sc), '%s: %s' % (type(exc).__name__, exc)))
            return
        exp = rodrigues(case['angle'], ax, v)
        lv = math.sqrt(sum((c / sc) ** 2 for c in v)) * sc if sc else 0.0
        if any(x != x for x in g) or max(abs(a - b) for a, b in zip(g, exp)) > 1e-9 * lv:
            acc.viols.append(Viol(case, 'rodrigues', 'wrong-rotation/vector-scale=%g' % sc, 'got %r expected %r' % (g, exp)))
        acc.outcomes['vecscale-ok'] += 1
        return
    if case.get('kind') == 'callpair':
        acc.n += 1
        acc.nontrivial_n += 1
        r = _callpair(case)
        if r:
            acc.viols.append(Viol(case, 'rodrigues', r[0], r[1]))
        return
    if case.get('kind') == 'objects':
        # one Vector object serves as axis twice, its components re-assigned in between (after its length was taken)
        acc.n += 1
        acc.nontrivial_n += 1
        axv = Vector(*case['axis'])
        vec = tuple(case['vec'])
        if case['pre'] == 'length':
            axv.length()
        elif case['pre'] == 'rescale':
            axv.rescale(1.0)
        elif case['pre'] == 'rotate':
            rotate_vector_around_an_axis(case['angle'], axv, Vector(*vec))
        axv.x, axv.y, axv.z = case['axis2']
        try:
            got = rotate_vector_around_an_axis(case['angle'], axv, Vector(*vec))
            g = [got.x, got.y, got.z]
        except Exception as exc:   # noqa: BLE001
            acc.viols.append(Viol(case, 'rodrigues', 'rotation-raises/%s/axis-object-reused' % type(exc).__name__, '%s: %s' % (type(exc).__name__, exc)))
            return
        exp = rodrigues(case['angle'], tuple(case['axis2']), vec)
        lv = math.sqrt(sum(c * c for c in vec))
        if max(abs(a - b) for a, b in zip(g, exp)) > 1e-9 * lv:
            acc.viols.append(Viol(case, 'rodrigues', 'wrong-rotation/axis-object-reused/after-%s' % case['pre'], 'got %r expected %r' % (g, exp)))
        acc.outcomes['objects-ok'] += 1
        return
    acc.n += 1
    r = one(tuple(case['axis']), case['angle'], tuple(case['vec']), case.get('tol', 1e-9))
    if r is not None:
        acc.viols.append(Viol(case, 'rodrigues', r[0], r[1]))

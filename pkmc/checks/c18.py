"""C18 - parameter tables are symmetric, complete and self-consistent."""
import itertools
import os

from ..core import Acc, Viol, jhash
from .. import pk, gen
import propka.parameters
import propka.input
import propka.lib

ID = 'C18'
LEVEL = 'model_checking'
LEVEL_TEXT = ('Every parameter file of a bounded grammar (all symmetric interaction matrices over {I,N,-} for <= 3 group names '
              'and over {I,-} for 4 names in every row order; every subset of <= 3 (quick) / 4 pair-cut-off lines over 3 names '
              'in every order and orientation with the default line at every position; every cut-off given plain or squared; '
              'permutations of scalar/list/dictionary lines) is written to disk, read by the real read_parameter_file and '
              'compared look-up by look-up with a reference symmetric dictionary; under the shipped file every pair of group '
              'types that the real pipeline creates from the template library is looked up.')
LEVEL_NOTE = ('Reference: plain dictionaries in pkmc/checks/c18.py. Group types are obtained by running every protein kind, '
              'ligand template and ion through the real is_group; types only reachable with other ligand typing schemes '
              '(LG/ALG/BLG) and the ION type, which is scored outside the matrix, are not judged.')
TECHNIQUE = 'exhaustive enumeration of a parameter-file grammar; reference dictionary compared with the real parser state on every look-up'
ASSUMPTIONS = ['the interaction matrix is written as a lower triangle, as in the shipped file']

NAMES = ('AAA', 'BB', 'C', 'D4')
# group-type names the program itself uses (a protein type, a ligand type of the same chemistry, two more): a file may declare any
# subset of them, look-ups are made for all
REAL_NAMES = ('COO', 'HIS', 'OCO', 'NAR')


def names_of(case):
    return REAL_NAMES if case.get('names') == 'real' else NAMES


def matrix_cases(tier):
    out = []
    for n, alpha in ((1, 'IN-'), (2, 'IN-'), (3, 'IN-'), (4, 'I-'), (2, ('I', '0', '1', '2.5')), (3, ('N', '1', '-'))):
        if tier == 'quick' and n == 4:
            alpha = 'I-'
        pairs = [(i, j) for i in range(n) for j in range(i + 1)]
        for vals in itertools.product(alpha, repeat=len(pairs)):
            m = dict(zip(pairs, vals))
            for order in itertools.permutations(range(n)):
                if tier == 'quick' and n == 4 and order != tuple(range(4)) and order != (3, 2, 1, 0):
                    continue
                out.append(dict(kind='matrix', n=n, m=[[i, j, m[(i, j)]] for (i, j) in pairs], order=list(order)))
    # the same grammar over names the program knows (1-3 declared rows, all four names looked up)
    for n in (1, 2, 3):
        pairs = [(i, j) for i in range(n) for j in range(i + 1)]
        for vals in itertools.product('IN', repeat=len(pairs)):
            m = dict(zip(pairs, vals))
            for sel in itertools.permutations(range(4), n):
                out.append(dict(kind='matrix', n=n, m=[[i, j, m[(i, j)]] for (i, j) in pairs], order=list(range(n)), names='real', sel=list(sel)))
    # the shipped matrix cut off after each of its rows
    for k in range(1, 40):
        out.append(dict(kind='matrix-prefix', rows=k))
    # a row declared a second time (whatever the values then are, both orientations of every pair must agree)
    for n in (2, 3):
        pairs = [(i, j) for i in range(n) for j in range(i + 1)]
        for base in ('I', 'N'):
            for gi in range(n):
                for vals in itertools.product('IN-', repeat=n + 1):      # (the program counts the repeated name as one more column)
                    out.append(dict(kind='matrix', n=n, m=[[i, j, base] for (i, j) in pairs], order=list(range(n)), redeclare=[gi, list(vals)]))
    return out


def case_names(case):
    """Names in the order 'declared ones first' (a selection puts any subset of the name set first)."""
    base = names_of(case)
    sel = case.get('sel')
    if sel is None:
        return base
    return tuple(base[i] for i in sel) + tuple(b for i, b in enumerate(base) if i not in sel)


def shipped_matrix_rows():
    rows = []
    for ln in open(os.path.join(os.path.dirname(propka.__file__), 'propka.cfg')):
        ln = ln.split('#')[0]                      # (the shipped rows end in a comment naming the next column)
        w = ln.split()
        if w and w[0] == 'interaction_matrix':
            rows.append(' '.join(w) + '\n')
    return rows


def matrix_text(case):
    m = {}
    for i, j, v in case['m']:
        m[(i, j)] = m[(j, i)] = v
    lines = []
    order = case['order']
    NAMES = case_names(case)
    for r, gi in enumerate(order):
        row = [m[(gi, order[c])] for c in range(r + 1)]
        lines.append('interaction_matrix %s %s\n' % (NAMES[gi], ' '.join(row)))
    if case.get('redeclare') is not None:
        # an override row appended after the matrix: the row of one name given again in full, with other values
        gi, vals = case['redeclare']
        lines.append('interaction_matrix %s %s\n' % (NAMES[gi], ' '.join(vals)))
    return ''.join(lines), m


def pair_cases(tier):
    names = NAMES[:3]
    upairs = [(a, b) for i, a in enumerate(names) for b in names[i:]]
    out = []
    maxk = 3 if tier == 'quick' else 4
    for k in range(0, maxk + 1):
        for subset in itertools.combinations(range(len(upairs)), k):
            hetero = [i for i in subset if upairs[i][0] != upairs[i][1]]
            for flips in itertools.product((0, 1), repeat=len(hetero)):
                fl = dict(zip(hetero, flips))
                for order in itertools.permutations(subset):
                    for dpos in range(0, k + 1):
                        out.append(dict(kind='pairs', lines=[[i, fl.get(i, 0)] for i in order], default_at=dpos))
    # the same pair defined more than once, in either orientation, with different values: the last line decides both orientations
    for i in range(len(upairs)):
        for f1, f2 in itertools.product((0, 1), repeat=2):
            for other in (None, (i + 1) % len(upairs)):
                for dpos in (0, 2):
                    lines = [[i, f1, 0], [i, f2, 1]] if other is None else [[i, f1, 0], [other, 0, 0], [i, f2, 1]]
                    out.append(dict(kind='pairs', lines=lines, default_at=min(dpos, len(lines))))
    # explicit pairs whose values coincide with a default (the initial 0/0, the declared one), defaults declared twice,
    # pairs re-defined back to the default: an explicit pair keeps its own values whatever the default becomes
    for i in range(len(upairs)):
        for val in ('zero', 'declared', 'second', 'wide', 'wide2', 'ints', 'exp'):
            for dpos in (0, 1):
                out.append(dict(kind='pairs2', script=[['pair', i, 0, val]], default_at=dpos, second_default=False))
                out.append(dict(kind='pairs2', script=[['pair', i, 0, val]], default_at=dpos, second_default=True))
                out.append(dict(kind='pairs2', script=[['pair', i, 0, 'own'], ['pair', i, 1, val]], default_at=dpos, second_default=True))
                if val in ('wide', 'ints'):
                    out.append(dict(kind='pairs2', script=[['pair', i, 0, 'own']], default_at=dpos, second_default=val))
    return out


PAIR_VALUES = {'zero': (0.0, 0.0), 'declared': (3.5, 4.5), 'second': (2.25, 5.5), 'own': (1.25, 2.75),
               # numbers whose order as text differs from their order as numbers, integers, exponents
               'wide': (3.0, 10.0), 'wide2': (8.0, 12.0), 'ints': (2, 11), 'exp': (9.5, 1.05e1)}


def pair2_text(case):
    names = NAMES[:3]
    upairs = [(a, b) for i, a in enumerate(names) for b in names[i:]]
    lines, ref = [], {}
    for kind, i, flip, val in case['script']:
        a, b = upairs[i]
        if flip:
            a, b = b, a
        vv = PAIR_VALUES[val]
        ref[(a, b)] = ref[(b, a)] = vv
        lines.append('sidechain_cutoffs %s %s %s %s\n' % (a, b, vv[0], vv[1]))
    lines.insert(min(case['default_at'], len(lines)), 'sidechain_cutoffs default 3.5 4.5\n')
    default = (3.5, 4.5)
    if case['second_default']:
        dv = PAIR_VALUES.get(case['second_default'], (2.25, 5.5)) if isinstance(case['second_default'], str) else (2.25, 5.5)
        lines.append('sidechain_cutoffs default %s %s\n' % dv)
        default = tuple(float(x) for x in dv)
    ref = {k_: tuple(float(x) for x in v_) for k_, v_ in ref.items()}
    return ''.join(lines), ref, default


def pair_text(case):
    names = NAMES[:3]
    upairs = [(a, b) for i, a in enumerate(names) for b in names[i:]]
    ref = {}
    lines = []
    for n, ln in enumerate(case['lines']):
        i, flip = ln[0], ln[1]
        gen_ = ln[2] if len(ln) > 2 else 0
        a, b = upairs[i]
        if flip:
            a, b = b, a
        val = (1.0 + 0.25 * i + 0.1 * gen_, 2.0 + 0.5 * i + 0.1 * gen_)
        ref[(a, b)] = ref[(b, a)] = val
        lines.append('sidechain_cutoffs %s %s %s %s\n' % (a, b, val[0], val[1]))
    lines.insert(case['default_at'], 'sidechain_cutoffs default 3.5 4.5\n')
    return ''.join(lines), ref, (3.5, 4.5)


SQ = ('desolv_cutoff', 'buried_cutoff', 'coulomb_cutoff1', 'coulomb_cutoff2')
SQ_VALUES = (0.01, 1.0, 2.25, 4.0, 10.0, 20.0, 400.0, 1e-6)


def squared_cases():
    out = []
    for name in SQ:
        for v in SQ_VALUES:
            for how in ('plain', 'squared', 'plain-then-squared', 'squared-then-plain'):
                out.append(dict(kind='squared', name=name, value=v, how=how))
    return out


SEQ_OPS = [(op, val) for op in ('line-plain', 'line-squared', 'set-plain', 'set-squared') for val in (2.0, 3.0)]


def squared_seq_cases(tier):
    depth = 3 if tier == 'quick' else 4
    out = []
    for name in SQ:
        for k in range(1, depth + 1):
            for seq in itertools.product(range(len(SEQ_OPS)), repeat=k):
                out.append(dict(kind='squared-seq', name=name, ops=list(seq)))
    return out


def squared_sequence(case, acc):
    """One Parameters object driven through a sequence of writes (parameter lines or attribute assignments, plain or squared);
    both values are read in every state - before the first write and after each one - and compared with a one-variable model."""
    name = case['name']
    p = propka.parameters.Parameters()
    model = getattr(propka.parameters.Parameters(), name)
    v = []

    def observe(where):
        plain, sq = getattr(p, name), getattr(p, name + '_squared')
        acc.extra['states'] += 1
        if abs(sq - plain * plain) > 1e-12 * max(1.0, sq):
            v.append(('squared-not-square/after-sequence', '%s after %s: plain=%r squared=%r' % (name, where, plain, sq)))
        if abs(plain - model) > 1e-12 * max(1.0, model):
            v.append(('squared-setter/after-sequence', '%s after %s: plain=%r expected %r' % (name, where, plain, model)))
    observe('construction')
    done = []
    for i in case['ops']:
        op, val = SEQ_OPS[i]
        done.append('%s(%g)' % (op, val))
        if op == 'line-plain':
            p.parse_line('%s %r\n' % (name, val))
            model = val
        elif op == 'line-squared':
            p.parse_line('%s_squared %r\n' % (name, val))
            model = val ** 0.5
        elif op == 'set-plain':
            setattr(p, name, val)
            model = val
        else:
            setattr(p, name + '_squared', val)
            model = val ** 0.5
        acc.extra['transitions'] += 1
        observe(' '.join(done))
    return v


PSEQ_OPS = [('pair', 0, 0, (1.0, 2.0)), ('pair', 1, 0, (1.25, 2.5)), ('pair', 1, 1, (1.5, 2.75)), ('default', (3.5, 4.5)), ('default', (2.25, 5.5))]


def pairs_seq_cases(tier):
    depth = 3 if tier == 'quick' else 4
    return [dict(kind='pairs-seq', ops=list(seq)) for k in range(1, depth + 1) for seq in itertools.product(range(len(PSEQ_OPS)), repeat=k)]


def pairs_sequence(case, acc):
    """One Parameters object receives pair and default lines one at a time; all nine look-ups are made in every intermediate state
    (before the first line, too) and compared with a dictionary-plus-default model."""
    names = NAMES[:3]
    upairs = [(a, b) for i, a in enumerate(names) for b in names[i:]]
    p = propka.parameters.Parameters()
    model, default = {}, (0.0, 0.0)
    v = []

    def observe(where):
        acc.extra['states'] += 1
        pm = p.sidechain_cutoffs
        for a in names:
            for b in names:
                g1, g2 = tuple(pm.get_value(a, b)), tuple(pm.get_value(b, a))
                want = model.get((a, b), default)
                if g1 != g2:
                    v.append(('pairs-asymmetric/after-sequence', 'after %s: get_value(%s,%s)=%r reversed %r' % (where, a, b, g1, g2)))
                elif g1 != tuple(want):
                    v.append(('pairs-default-not-applied/after-sequence' if (a, b) not in model else 'pairs-wrong-value/after-sequence',
                              'after %s: get_value(%s,%s)=%r expected %r' % (where, a, b, g1, want)))
    observe('construction')
    done = []
    for i in case['ops']:
        op = PSEQ_OPS[i]
        if op[0] == 'pair':
            a, b = upairs[op[1] + 1] if op[1] else upairs[0]
            if op[2]:
                a, b = b, a
            p.parse_line('sidechain_cutoffs %s %s %s %s\n' % (a, b, op[3][0], op[3][1]))
            model[(a, b)] = model[(b, a)] = op[3]
            done.append('pair(%s,%s)' % (a, b))
        else:
            p.parse_line('sidechain_cutoffs default %s %s\n' % op[1])
            default = op[1]
            done.append('default%s' % (op[1],))
        acc.extra['transitions'] += 1
        observe(' '.join(done))
    return v


SCALAR_LINES = ['Nmin 123\n', 'model_pkas XYZ 4.25\n', 'acid_list XYZ\n', 'version SimpleHB\n', 'shared_determinants 1\n',
                'COO_HIS_exception 2.5\n', 'ions QQ 3\n', 'backbone_NH_hydrogen_bond XYZ -0.5 2.0 3.0\n',
                'protein_group_mapping XYZ-CG COO\n', 'desolvationPrefactor -11.5  # comment\n', '# only a comment\n', '\n']


def scalar_cases(tier):
    out = []
    k = 3 if tier == 'quick' else 4
    for sub in itertools.permutations(range(len(SCALAR_LINES)), k):
        out.append(dict(kind='scalars', lines=list(sub)))
    return out


def plan(tier, seed):
    cases = matrix_cases(tier) + pair_cases(tier) + squared_cases() + squared_seq_cases(tier) + pairs_seq_cases(tier) + scalar_cases(tier) + sequence_cases(tier)
    size = 300
    shards = [cases[i:i + size] for i in range(0, len(cases), size)] + [[dict(kind='shipped')]]
    return dict(shards=shards, exhaustive=True,
                rule=('interaction matrices: all symmetric assignments over {I,N,-} for 1-3 names and over {I,-} for 4 names, '
                      'all row orders (quick: 2 row orders for 4 names); pair cut-offs: all subsets of <= %d of the 6 unordered '
                      'pairs over 3 names, every line order, both orientations of mixed pairs, default line at every position; '
                      'squared/plain cut-offs: 4 names x 8 values x 4 orders of assignment, and every sequence of <= %d writes (parameter line or '
                      'attribute assignment, plain or squared, 2 values) with both values read in every intermediate state, and every sequence of <= 3/4 '
                      'pair / default lines with all look-ups made in every intermediate state; every file also '
                      'without final newline, with CRLF line ends and with trailing blank lines; every ordered pair (thorough: triple) of a pool of files '
                      'read one after the other in one process, all objects verified afterwards; scalar/list/dict lines: all ordered '
                      'selections of %d of 12 lines; the shipped file with every created group type. matrices over four of the program\'s own type names with any 1-3 of them declared, and the shipped matrix cut off after each of its rows (look-ups over all names, declared or not); non-trivial = distinct files '
                      'with at least one look-up') % (3 if tier == 'quick' else 4, 3 if tier == 'quick' else 4, 3 if tier == 'quick' else 4),
                bounds=dict(cases=len(cases)), samples=[cases[50], cases[-1]])


FORMATS = ('as-is', 'no-final-newline', 'crlf', 'blank-lines-at-end')


def read(text, name='p.cfg', fmt='as-is'):
    path = os.path.abspath(name)
    if fmt == 'no-final-newline':
        text = text.rstrip('\n')
    elif fmt == 'crlf':
        text = text.replace('\n', '\r\n')
    elif fmt == 'blank-lines-at-end':
        text = text + '\n   \n\n'
    with open(path, 'w', newline='') as fh:
        fh.write(text)
    return propka.input.read_parameter_file(path, propka.parameters.Parameters())


def case_text(case):
    k = case['kind']
    if k == 'matrix':
        return matrix_text(case)[0]
    if k == 'matrix-prefix':
        return ''.join(shipped_matrix_rows()[:case['rows']])
    if k == 'pairs':
        return pair_text(case)[0]
    if k == 'pairs2':
        return pair2_text(case)[0]
    if k == 'scalars':
        return ''.join(SCALAR_LINES[i] for i in case['lines'])
    raise KeyError(k)


def verify(case, p, acc, pristine=None):
    """Look-ups on the Parameters object p read from the file of `case`, against the reference written from the statement."""
    k = case['kind']
    v = []
    if k == 'matrix-prefix':
        rows = shipped_matrix_rows()
        names = [r.split()[1] for r in rows]
        full = {}
        for r, row in enumerate(rows):
            for c, val in enumerate(row.split()[2:]):
                full[(names[r], names[c])] = full[(names[c], names[r])] = val
        declared = set(names[:case['rows']])
        im = p.interaction_matrix
        acc.extra['states'] += case['rows']
        acc.extra['transitions'] += len(names) ** 2
        for a in names + ['ZZZ']:
            for b in names + ['ZZZ']:
                g1, g2 = im.get_value(a, b), im.get_value(b, a)
                want = full.get((a, b)) if a in declared and b in declared else None
                if g1 != g2:
                    v.append(('matrix-asymmetric/shipped-rows-cut-off', 'first %d rows: get_value(%s,%s)=%r but (%s,%s)=%r' % (case['rows'], a, b, g1, b, a, g2)))
                elif g1 != want:
                    v.append(('matrix-wrong-value/shipped-rows-cut-off' if want is not None else 'matrix-undeclared-name-has-value/shipped-rows-cut-off',
                              'first %d rows: get_value(%s,%s)=%r expected %r' % (case['rows'], a, b, g1, want)))
    elif k == 'matrix':
        text, m = matrix_text(case)
        im = p.interaction_matrix
        n = case['n']
        MN = case_names(case)
        acc.extra['states'] += n
        acc.extra['transitions'] += n * (n + 1) // 2
        for i in range(n):
            for j in range(n):
                a, b = MN[i], MN[j]
                g1, g2 = im.get_value(a, b), im.get_value(b, a)
                want = m[(i, j)]
                try:
                    want = float(want)     # numeric entries are stored as numbers
                except ValueError:
                    pass
                if g1 != g2 or type(g1) is not type(g2):
                    v.append(('matrix-asymmetric%s' % ('/row-declared-twice' if case.get('redeclare') else ''), 'get_value(%s,%s)=%r but (%s,%s)=%r' % (a, b, g1, b, a, g2)))
                elif case.get('redeclare') is not None:
                    pass      # only the symmetry is claimed for a re-declared row
                elif g1 != want or type(g1) is not type(want):
                    v.append(('matrix-wrong-value', 'get_value(%s,%s)=%r expected %r' % (a, b, g1, want)))
            if im.get_value(MN[i], 'ZZZ') is not None or im.get_value('ZZZ', MN[i]) is not None:
                v.append(('matrix-unknown-name', 'unknown name returns a value'))
        for i in range(n, len(MN)):      # names the file does not declare
            for j in range(len(MN)):
                if im.get_value(MN[i], MN[j]) is not None or im.get_value(MN[j], MN[i]) is not None:
                    v.append(('matrix-undeclared-name-has-value', 'get_value(%s,%s) is not None' % (MN[i], MN[j])))
    elif k in ('pairs', 'pairs2'):
        text, ref, default = pair_text(case) if k == 'pairs' else pair2_text(case)
        pm = p.sidechain_cutoffs
        names = NAMES[:3]
        acc.extra['states'] += len(case.get('lines', case.get('script', []))) + 1
        acc.extra['transitions'] += 9
        for a in names:
            for b in names:
                g1, g2 = pm.get_value(a, b), pm.get_value(b, a)
                want = ref.get((a, b), default)
                if tuple(g1) != tuple(g2):
                    v.append(('pairs-asymmetric', 'get_value(%s,%s)=%r but reversed %r' % (a, b, g1, g2)))
                elif tuple(g1) != tuple(want):
                    nl = len(case.get('lines', case.get('script', [])))
                    ck = 'pairs-default-not-applied/default-line-at-%s' % (
                        'start' if case['default_at'] == 0 else 'end' if case['default_at'] >= nl else 'middle') \
                        if (a, b) not in ref else 'pairs-wrong-value'
                    v.append((ck, 'get_value(%s,%s)=%r expected %r' % (a, b, g1, want)))
    elif k == 'scalars':
        d = pristine if pristine is not None else propka.parameters.Parameters()
        want = {0: ('Nmin', 123), 1: ('model_pkas', {'XYZ': 4.25}), 2: ('acid_list', ['XYZ']), 3: ('version', 'SimpleHB'),
                4: ('shared_determinants', 1), 5: ('COO_HIS_exception', 2.5), 6: ('ions', {'QQ': 3.0}),
                7: ('backbone_NH_hydrogen_bond', {'XYZ': [-0.5, 2.0, 3.0]}), 8: ('protein_group_mapping', {'XYZ-CG': 'COO'}),
                9: ('desolvationPrefactor', -11.5)}
        acc.extra['states'] += 1
        acc.extra['transitions'] += len(case['lines'])
        for i, (attr, val) in want.items():
            got = getattr(p, attr)
            exp = val if i in case['lines'] else (d[attr] if isinstance(d, dict) else getattr(d, attr))
            if got != exp or type(got) is not type(exp):
                v.append(('line-dispatch/%s' % attr, '%s=%r (%s) expected %r' % (attr, got, type(got).__name__, exp)))
    return v


SCALAR_ATTRS = ('Nmin', 'model_pkas', 'acid_list', 'version', 'shared_determinants', 'COO_HIS_exception', 'ions', 'backbone_NH_hydrogen_bond',
                'protein_group_mapping', 'desolvationPrefactor')


def sequence_cases(tier):
    """Several parameter files read one after the other in one process; every object is verified after all reads."""
    import copy
    pool = []
    pc = [c for c in pair_cases('quick') if c['kind'] == 'pairs' and len(c['lines']) <= 2 and c['default_at'] == 0]
    pool += pc[:: max(1, len(pc) // (10 if tier == 'quick' else 24))]
    mc = [c for c in matrix_cases('quick') if c['kind'] == 'matrix' and 'names' not in c and c['n'] in (1, 2, 3) and c['order'] == sorted(c['order'])]
    pool += mc[:: max(1, len(mc) // (8 if tier == 'quick' else 20))]
    sc = scalar_cases('quick')
    pool += sc[:: max(1, len(sc) // (8 if tier == 'quick' else 20))]
    out = []
    for a in pool:
        for b in pool:
            out.append(dict(kind='read-sequence', files=[copy.deepcopy(a), copy.deepcopy(b)]))
    if tier == 'thorough':
        for a in pool[::3]:
            for b in pool[::3]:
                for c in pool[::3]:
                    out.append(dict(kind='read-sequence', files=[copy.deepcopy(a), copy.deepcopy(b), copy.deepcopy(c)]))
    return out


def run_case(case, ctx, acc):
    if case['kind'] == 'matrix-prefix' and case['rows'] > len(shipped_matrix_rows()):
        acc.skipped += 1
        return
    if case['kind'] in ('matrix', 'pairs', 'pairs2', 'scalars') and 'fmt' not in case:
        for fmt in FORMATS:     # the same content written with each line-ending convention
            run_case(dict(case, fmt=fmt), ctx, acc)
        return
    k = case['kind']
    fmt = case.get('fmt', 'as-is')
    v = []
    if k == 'squared-seq':
        v += squared_sequence(case, acc)
        acc.case(nontrivial_key=jhash(case), outcome='squared-seq')
    elif k == 'pairs-seq':
        v += pairs_sequence(case, acc)
        acc.case(nontrivial_key=jhash(case), outcome='pairs-seq')
    elif k == 'read-sequence':
        d0 = propka.parameters.Parameters()
        pristine = {a: __import__('copy').deepcopy(getattr(d0, a)) for a in SCALAR_ATTRS}
        objs = [read(case_text(f), name='seq%d.cfg' % i) for i, f in enumerate(case['files'])]
        for i, (f, p) in enumerate(zip(case['files'], objs)):
            for ck, what in verify(f, p, acc, pristine=pristine):
                v.append(('%s/after-reading-%d-files/file-%d' % (ck, len(objs), i + 1), what))
        acc.case(nontrivial_key=jhash(case), outcome='read-sequence')
    elif k in ('matrix', 'matrix-prefix', 'pairs', 'pairs2', 'scalars'):
        p = read(case_text(case), fmt=fmt)
        v += verify(case, p, acc)
        acc.case(nontrivial_key=jhash(case), outcome={'matrix': 'matrix-%d' % case.get('n', 0), 'scalars': 'scalars', 'matrix-prefix': 'matrix-prefix'}.get(k, 'pairs-%d' % len(case.get('lines', case.get('script', [])))))
    elif k == 'squared':
        name, val, how = case['name'], case['value'], case['how']
        lines = {'plain': ['%s %r\n' % (name, val)], 'squared': ['%s_squared %r\n' % (name, val)],
                 'plain-then-squared': ['%s 7.0\n' % name, '%s_squared %r\n' % (name, val)],
                 'squared-then-plain': ['%s_squared 49.0\n' % name, '%s %r\n' % (name, val)]}[how]
        p = read(''.join(lines))
        plain, sq = getattr(p, name), getattr(p, name + '_squared')
        want_plain = val if how in ('plain', 'squared-then-plain') else val ** 0.5
        acc.extra['states'] += 1
        acc.extra['transitions'] += len(lines)
        if abs(sq - plain * plain) > 1e-12 * max(1.0, sq):
            v.append(('squared-not-square', '%s=%r but %s_squared=%r' % (name, plain, name, sq)))
        if abs(plain - want_plain) > 1e-12 * max(1.0, want_plain):
            v.append(('squared-setter', '%s set %s: plain=%r expected %r' % (name, how, plain, want_plain)))
        for other in SQ:
            if other != name:
                d = propka.parameters.Parameters()
                if getattr(p, other) != getattr(d, other):
                    v.append(('squared-leaks', 'setting %s changed %s' % (name, other)))
        acc.case(nontrivial_key=jhash(case), outcome='squared')
    elif k == 'shipped':
        v += shipped(acc)
        acc.case(nontrivial_key='shipped', outcome='shipped')
    seen = set()
    for ck, what in v:
        if fmt != 'as-is':
            ck = ck + '/file-format=' + fmt
        if ck not in seen:
            seen.add(ck)
            acc.viols.append(Viol(case, 'tables', ck, what))


def created_groups():
    """Group objects the real pipeline creates from every protein kind, ligand template and ion."""
    groups = {}
    texts = []
    for kind in list(gen.PROTEIN_KINDS) + ['N+', 'C-']:
        texts.append(gen.to_text(gen.kind_struct(kind, 'A', 1)))
    for name in gen.TEMPLATES:
        texts.append(gen.to_text(gen.ligand(name)))
    for name in gen.IONS:
        texts.append(gen.to_text(gen.ion(name, at=(5000, 5000, 5000))))
    mol = None
    for t in texts:
        mol = pk.run(t)
        for g in mol.conformations[mol.conformation_names[0]].groups:
            groups.setdefault(g.type, g)
    return groups, mol.version.parameters


def shipped(acc):
    v = []
    groups, p = created_groups()
    types = sorted(t for t in groups if 'BB' not in t and t != 'ION')
    acc.extra['states'] += len(types)
    acc.extra['transitions'] += len(types) ** 2
    acc.extra['shipped_group_types'] = len(types)
    for a in types:
        for b in types:
            val = p.interaction_matrix.get_value(a, b)
            if val not in ('I', 'N', '-'):
                t = a if p.interaction_matrix.get_value(a, a) is None else b
                v.append(('shipped-matrix-undefined/%s' % t, 'interaction_matrix.get_value(%s,%s)=%r' % (a, b, val)))
            if val != p.interaction_matrix.get_value(b, a):
                v.append(('shipped-matrix-asymmetric', '%s,%s' % (a, b)))
            c = p.sidechain_cutoffs.get_value(a, b)
            if tuple(c) != tuple(p.sidechain_cutoffs.get_value(b, a)):
                v.append(('shipped-cutoffs-asymmetric', '%s,%s' % (a, b)))
            if not c[0] < c[1]:
                v.append(('shipped-cutoff-order', '%s,%s: %r' % (a, b, c)))
    for t, g in groups.items():
        if g.use_in_calculations():
            if not g.model_pka_set and g.residue_type != 'CYS':
                v.append(('shipped-no-model-pka/%s' % t, t))
            if not g.charge:
                v.append(('shipped-zero-charge/%s' % t, '%s charge %r' % (t, g.charge)))
            if g.residue_type not in p.write_out_order:
                v.append(('shipped-not-in-write-out-order/%s' % g.residue_type, g.residue_type))
    for rt in p.write_out_order:
        if rt in p.model_pkas:
            continue
        if any(g.residue_type == rt and g.use_in_calculations() for g in groups.values()):
            v.append(('shipped-written-type-without-model-pka/%s' % rt, rt))
    for name, tab in (('NH', p.backbone_NH_hydrogen_bond), ('CO', p.backbone_CO_hydrogen_bond)):
        for t, (val, c1, c2) in tab.items():
            if not c1 < c2:
                v.append(('shipped-cutoff-order', 'backbone_%s %s: %r %r' % (name, t, c1, c2)))
    if not p.coulomb_cutoff1 < p.coulomb_cutoff2:
        v.append(('shipped-cutoff-order', 'coulomb cut-offs'))
    if not p.sidechain_cutoffs.default[0] < p.sidechain_cutoffs.default[1]:
        v.append(('shipped-cutoff-order', 'default'))
    for nm in SQ:
        if abs(getattr(p, nm + '_squared') - getattr(p, nm) ** 2) > 1e-9:
            v.append(('squared-not-square', nm))
    return v

"""C06 - residue and chain labels identify residues but never influence the numbers."""
import collections

from ..core import Acc, Viol, jhash
from .. import pk, gen, cmp, corpus

ID = 'C06'
HORIZON_S = 1800   # one case = one input under all its transformations
LEVEL = 'exploration'
LEVEL_TEXT = ('Every input of the corpus (windows, cut-outs, docked pairs, clusters, whole chains; thorough: whole files) is '
              'relabelled by every transformation of a fixed list - order-preserving chain renamings onto upper-case, lower-case '
              'and digit ids, per-chain residue-number shifts (to negative numbers, +1, +1000, up to 9999, and shifts that make the numbers of different '
              'chains collide or reverse their order), sequential '
              'renumbering in file order (which gives insertion-coded residues numbers of their own) and, conversely, the '
              'introduction of an insertion code at every adjacent residue pair - and run through the real program; the '
              'records keyed by position in the file must be equal to 1e-9 with partner identity mapped through the relabelling.')
LEVEL_NOTE = ('Differential oracle between real executions. Inputs whose relabelled or original form contains residues that share '
              'chain and number (insertion-code twins) run under the same oracle but their divergences are matched against the '
              'known findings KF-C06-*; all other inputs form the strict sub-scope.')
TECHNIQUE = 'exhaustive application of a finite set of relabelling transformations over a bounded input corpus; differential comparison of real executions'
ASSUMPTIONS = ['chain renamings preserve the ASCII order of the chain ids, as the statement requires (order-preserving relabellings)']

CHAIN_TARGETS = {'upper': 'DEFGHIJKLMNOPQRSTUVWXY', 'upper-late': 'QRSTUVWXYZ', 'lower': 'abcdefghijklmnopqrstuvwxyz', 'digit': '123456789',
                 'mixed': '1Aa', 'mixed2': '9Zz', 'case': 'AaBbCcDdEe'}


def transforms(s, tier):
    """Yield (name, function on (chain, resnum, icode) -> (chain, resnum, icode), twin_flag)."""
    chains = []
    res = collections.OrderedDict()
    for a in s.atoms:
        if a.chain not in chains:
            chains.append(a.chain)
        res.setdefault(a.chain, collections.OrderedDict()).setdefault((a.resnum, a.icode), None)
    ordered = sorted(chains, key=ord)
    out = []
    for name, target in CHAIN_TARGETS.items():
        if len(ordered) > len(target):
            continue
        m = dict(zip(ordered, target))
        out.append(('chain/' + name, (lambda m: lambda c, n, i: (m[c], n, i))(m), False))
    rmin = {c: min(k[0] for k in res[c]) for c in chains}
    rmax = {c: max(k[0] for k in res[c]) for c in chains}
    shifts = {'negative': {c: -rmin[c] - 5 - (rmax[c] - rmin[c]) for c in chains}, 'plus1': {c: 1 for c in chains},
              'plus1000': {c: 1000 for c in chains}, 'to9999': {c: 9999 - rmax[c] for c in chains},
              'staggered': {c: 37 * (k + 1) for k, c in enumerate(chains)},
              # forced collisions between chains: later chains get lower numbers than earlier ones; every chain starts at 1; each
              # chain starts at the number the previous chain ends with
              'reverse-chain-order': {c: (2000 - 300 * k) - rmin[c] for k, c in enumerate(chains)},
              'same-start': {c: 1 - rmin[c] for c in chains}}
    run, last = {}, None
    for c in chains:
        run[c] = 0 if last is None else last - rmin[c]
        last = rmax[c] + run[c]
    shifts['start-at-previous-end'] = run
    for name, sh in shifts.items():
        if any(rmin[c] + sh[c] < -999 or rmax[c] + sh[c] > 9999 for c in chains):
            continue
        out.append(('shift/' + name, (lambda sh: lambda c, n, i: (c, n + sh[c], i))(sh), False))
    # spread numbering: k-th residue of a chain -> 1 + step*k (gaps of up to 1000 between neighbours)
    spread = {}
    for c in chains:
        n = len(res[c])
        step = min(1000, 9998 // max(1, n))
        for k, key in enumerate(res[c]):
            spread[(c,) + key] = (c, 1 + step * k, ' ')
    out.append(('spread-numbering', lambda c, n, i: spread[(c, n, i)], False))
    # sequential renumbering in file order
    seq = {}
    for c in chains:
        for k, key in enumerate(res[c]):
            seq[(c,) + key] = (c, 1 + k, ' ')
    has_icode = any(k[1] != ' ' for c in chains for k in res[c])
    out.append(('renumber-file-order', lambda c, n, i: seq[(c, n, i)], False))
    # introduce an insertion code at adjacent residue pairs (i, i+1) -> (i, iA)
    positions = []
    for c in chains:
        if c == 'Z':
            continue
        keys = list(res[c])
        for k in range(len(keys) - 1):
            if keys[k][1] == ' ' and keys[k + 1][1] == ' ' and keys[k + 1][0] == keys[k][0] + 1:
                positions.append((c, keys[k], keys[k + 1]))
    step = 1 if tier == 'thorough' or len(positions) <= 8 else max(1, len(positions) // 8)
    for (c, k1, k2) in positions[::step]:
        def f(cc, n, i, c=c, k1=k1, k2=k2):
            if cc == c and (n, i) == k2:
                return (cc, k1[0], 'A')
            return (cc, n, i)
        out.append(('twin/%s%d' % (c, k1[0]), f, True))
    return out, has_icode


def relabel(s, f):
    t = s.copy()
    for a in t.atoms:
        a.chain, a.resnum, a.icode = f(a.chain, a.resnum, a.icode)
    return t


def keymap_of(f):
    def km(key):
        c, num, rest = key.split(':', 2)
        digits = num.rstrip('ABCDEFGHIJKLMNOPQRSTUVWXYZ')
        ic = num[len(digits):] or ' '
        cc = ' ' if c == '_' else c
        c2, n2, i2 = f(cc, int(digits), ic)
        return '%s:%d%s:%s' % (c2.strip() or '_', n2, i2.strip(), rest)
    return km


def inputs(tier):
    out = [dict(src='corpus', d=d) for d in corpus.windows(tier, k=5)]
    out += [dict(src='corpus', d=d) for d in corpus.cutouts(tier, radius=9.0)]
    out += [dict(src='corpus', d=d) for d in corpus.pairs(tier, kinds_a=('ASP', 'HIS', 'TYR', 'N+', 'ACT'),
                                                       kinds_b=('LYS', 'GLU', 'C-', 'CA', 'MAM', 'CYS', 'ASN', 'PYR', 'ASNO', 'GLNO'),
                                                       dists=(3.0,) if tier == 'quick' else (2.8, 3.0, 6.0))]
    out += [dict(src='corpus', d=d) for d in corpus.clusters(tier)[:: (1 if tier == 'thorough' else 3)]]
    out += [dict(src='corpus', d=corpus.chain_desc('3SGB', 'I'))]
    # exactly two-fold symmetric homodimers: the two partners of the contact have bit-identical pKa values before the iterative step (a tie)
    for kind in ('ASP', 'GLU', 'HIS', 'LYS', 'TYR', 'CYS'):
        for d in (2.8, 3.4):
            out.append(dict(src='c2dimer', kind=kind, dist=d))
    # two copies of the same ligand in different chains that carry the same residue number
    for lig, partner in (('ACT', 'LYS'), ('MAM', 'GLU'), ('PYR', 'ASP'), ('MGU', 'GLU')):
        out.append(dict(src='twochains', lig=lig, partner=partner))
    # a hetero group without chain id that carries the residue number of the protein residue it is docked to
    for lig, partner in (('ACT', 'LYS'), ('MAM', 'GLU'), ('CA', 'ASP'), ('PYR', 'HIS')):
        for level in ('exposed', 'mid'):
            out.append(dict(src='blankhet', lig=lig, partner=partner, level=level))
    # multi-conformation, multi-chain inputs (conformations are completed from each other by residue identity)
    for lay in ([[' ', 'ASP'], ['B', 'ASPs']], [['A', 'ASP'], ['B', 'ALA']], [['A', 'ASP'], ['B', 'ASPs'], ['C', 'ASPnoCG']]):
        out.append(dict(src='c08', d=dict(kind='alt', layout=lay)))
        out.append(dict(src='c08', d=dict(kind='alt', layout=lay, partial=True)) if all(x[1] != 'ALA' for x in lay) else dict(src='c08', d=dict(kind='alt', layout=lay, pos='first')))
    for lay in ([[1, 'ASP'], [2, 'ASPnoCG']], [[1, 'ASPnoCG'], [2, 'ASP'], [3, 'ALA']]):
        out.append(dict(src='c08', d=dict(kind='model', layout=lay)))
    if tier == 'thorough':
        out += [dict(src='corpus', d=d) for d in corpus.whole_chains()]
    return out


def plan(tier, seed):
    ins = inputs(tier)
    shards = [ins[i:i + 5] for i in range(0, len(ins), 5)]
    return dict(shards=shards, exhaustive=True,
                rule=('inputs: 5-residue windows, 9 A cut-outs, docked pairs (5x10 kinds), clusters, chain I of 3SGB (thorough: every '
                      'chain of the 4 proteins); transformations: chain renamings onto %s (order preserving), per-chain number shifts '
                      '{to negative, +1, +1000, to 9999, staggered, later chains lower, all chains from 1, each chain starting at the last number '
                      'of the previous one}, sequential renumbering in file order, insertion code introduced '
                      'at each adjacent residue pair (quick: at most 8 positions per input, evenly spaced). further inputs: exactly two-fold symmetric dimers (tie), two copies of a ligand in chains carrying the same number, hetero groups without chain id that carry the number of the residue they are docked to, multi-conformation layouts; titrate-only lists naming both members of an insertion-code twin. non-trivial = distinct '
                      '(input, transformation) whose record has at least one determinant or non-zero desolvation term') % sorted(CHAIN_TARGETS),
                bounds=dict(inputs=len(ins)), samples=[ins[0], ins[-1]])


def has_twins(s):
    seen = collections.defaultdict(set)
    for a in s.atoms:
        seen[(a.chain, a.resnum)].add(a.icode)
    return any(len(v) > 1 for v in seen.values())


def build_twochains(case, seed):
    """ligand (chain A, residue 1) + partner (chain B), and a second copy 9 A away as chains C/D with the SAME numbers."""
    s1 = gen.pair(case['lig'], case['partner'], 2.9, level='exposed', offset=gen.seed_offset(seed))
    s2 = s1.copy()
    for a in s2.atoms:
        a.chain = {'A': 'C', 'B': 'D'}[a.chain]
    ext = s1.extent()
    s2.translate((ext[0][1] - ext[0][0] + 9000, 700, -400))
    return gen.S(s1.items + s2.items).renumber_serials()


def run_case(case, ctx, acc):
    if case.get('src') == 'c08':
        from . import c08
        s = c08.build(dict(case['d'], layout=[tuple(x) for x in case['d']['layout']]), ctx.seed)
    elif case.get('src') == 'twochains':
        s = build_twochains(case, ctx.seed)
    elif case.get('src') == 'blankhet':
        s = gen.pair(case['partner'], case['lig'], 2.9, level=case['level'], offset=gen.seed_offset(ctx.seed))
        num = [a.resnum for a in s.atoms if a.chain == 'A' and a.resname == gen.KIND_RESNAME.get(case['partner'], case['partner'])][0]
        for a in s.atoms:
            if a.chain == 'B':
                a.chain, a.resnum = ' ', num
    elif case.get('src') == 'c2dimer':
        a = gen.kind_struct(case['kind'], 'A', 1)
        a = gen.dock_at(a, gen.kind_atom(case['kind'], a), (case['dist'] / 2.0, 0.0, 0.0), (1.0, 0.0, 0.0))
        b = a.copy().rotate(((0, 1, 2), (-1, -1, 1)))
        for at in b.atoms:
            at.chain = 'B'
            at.resnum += 10
        s = gen.S(a.items + ['TER\n'] + b.items + ['TER\n']).renumber_serials()      # (no seed offset: the symmetry axis is the z axis)
    else:
        s = corpus.build(case['d'], ctx.seed)
    text0 = gen.to_text(s)
    r0 = pk.record(pk.run(text0))
    trs, has_icode = transforms(s, ctx.tier)
    nt = any(any(g['dets'][t] for t in g['dets']) or g['energy_volume'] for g in r0['confs']['AVR']['groups'])
    chain_ids = []
    for a in s.atoms:
        if a.chain not in chain_ids and a.chain != 'Z':
            chain_ids.append(a.chain)
    sel0 = None
    if case.get('d', {}).get('t') == 'window':
        for g in r0['confs'][r0['conformations'][0]]['groups']:
            if g['use'] and g['type'] not in ('N+',):
                a = next(x for x in s.atoms if '%s:%d%s' % (x.chain.strip() or '_', x.resnum, x.icode.strip()) == ':'.join(g['key'].split(':')[:2]))
                sel0 = (a.chain, a.resnum, a.icode)
                break
    for name, f, twin in trs:
        t = relabel(s, f)
        text1 = gen.to_text(t)
        sub = dict(case, tr=name)
        r1 = pk.record(pk.run(text1))
        twins = twin or has_twins(s) or has_twins(t)
        acc.case(nontrivial_key=jhash(sub) if nt else None, outcome='%s/%s' % (name.split('/')[0], 'twins' if twins else 'plain'))
        d = cmp.diff_records(r0, r1, tol=1e-9, keymap=keymap_of(f), labels=False)
        if not d and name.startswith('chain/') and len(chain_ids) > 1:
            # selecting a chain by its new id selects the same chain
            for c0 in chain_ids[:2]:
                c1 = f(c0, 1, ' ')[0]
                try:
                    ra = pk.record(pk.run(text0, ('-c', c0)))
                    rb = pk.record(pk.run(text1, ('-c', c1)))
                except ValueError:
                    continue
                dd = cmp.diff_records(ra, rb, tol=1e-9, keymap=keymap_of(f), labels=False)
                acc.n += 1
                if dd:
                    d = [('chain-selection/' + dd[0][0],) + tuple(dd[0][1:])]
                    break
        if not d and sel0 is not None and not twins:
            # the same residue named by its new label in a titrate-only list selects the same group
            c2, n2, i2 = f(*sel0)
            ra = pk.record(pk.run(text0, ('-i', '%s:%d%s' % (sel0[0].strip() or '_', sel0[1], sel0[2].strip()))))
            rb = pk.record(pk.run(text1, ('-i', '%s:%d%s' % (c2.strip() or '_', n2, i2.strip()))))
            d = cmp.diff_records(ra, rb, tol=1e-9, keymap=keymap_of(f), labels=False)
            acc.n += 1
            if d:
                d = [('titrate-only/' + d[0][0],) + tuple(d[0][1:])]
        if len(r1['conformations']) == 1:
            # whatever the labels are, the reported average of a single conformation is that conformation (twins included: a group
            # must not be looked up through a key that drops the insertion code)
            only = dict(r1['confs'][r1['conformations'][0]])
            only['groups'] = [g for g in only['groups'] if g['use']]
            dd = cmp.diff_conf(r1['confs']['AVR'], only)
            if dd:
                acc.viols.append(Viol(sub, 'relabel', 'average-differs-from-only-conformation/%s/%s' % (name.split('/')[0], dd[0][0]),
                                      '%s: %s' % (name, str(dd[0])[:250]), inputs=dict(pdb=text0, relabelled=text1)))
        if name.startswith('twin/'):
            # both members of the new twin pair named in one titrate-only list (either order) select the same two residues as
            # their old names do; only the set of reported groups is compared (the numbers of twins are the subject of KF-C06-*)
            cc = name[5]
            n1 = int(name[6:])
            olds = [(cc, n1, ' '), (cc, n1 + 1, ' ')]
            news = [f(*o) for o in olds]
            arg = lambda ks: ','.join('%s:%d%s' % (c.strip() or '_', n, i.strip()) for c, n, i in ks)   # noqa: E731
            km = keymap_of(f)
            ra = pk.record(pk.run(text0, ('-i', arg(olds))))
            want = sorted(km(g['key']) for g in ra['confs']['AVR']['groups'] if g['use'])
            for order in (news, news[::-1]):
                rb = pk.record(pk.run(text1, ('-i', arg(order))))
                got = sorted(g['key'] for g in rb['confs']['AVR']['groups'] if g['use'])
                acc.n += 1
                if got != want:
                    acc.viols.append(Viol(dict(sub, titrate_only=arg(order)), 'relabel', 'titrate-only-twins-select-different-residues',
                                          '%s: -i %s reports %s, the old names report %s' % (name, arg(order), got, want),
                                          inputs=dict(pdb=text0, relabelled=text1)))
                    break
        if d:
            stage = d[0][0]
            ck = 'relabel-changes-result/%s/first-divergence=%s/%s' % (
                name.split('/')[0], stage, 'input-has-(chain,resnum)-twins' if twins else 'no-twins')
            acc.viols.append(Viol(sub, 'relabel', ck, '%s: %s' % (name, str(d[0])[:300]), detail=[str(x)[:200] for x in d[:6]],
                                  inputs=dict(pdb=text0, relabelled=text1)))

"""C12 - incomplete structures degrade gracefully."""
import collections
import io
import itertools

from ..core import Acc, Viol, jhash, exc_key
from .. import pk, gen, corpus
from . import c01
import pathlib
import propka.run
import propka.input
import propka.lib
import propka.parameters
from propka.molecular_container import MolecularContainer

ID = 'C12'
HORIZON_S = 1800   # one case = one input under all its transformations
LEVEL = 'exploration'
LEVEL_TEXT = ('Truncations are enumerated exhaustively within a deviation bound (= number of deleted atoms): every subset of the atoms of '
              'the middle residue of a tripeptide for all 20 residue types (all 2^n subsets for residues of <= 9 atoms in the quick '
              'tier, all residues in the thorough tier), the same for N- and C-terminal residues, every deletion of <= 2 atoms and every '
              'whole-residue deletion in cut-outs of the reference proteins, and every subset of the functional atoms of one partner of '
              'docked pairs at hydrogen-bond distance (incl. ligand templates). The real program must finish without any exception '
              'and report every ionizable group whose defining atom is still present (reference census of C01); inputs without atoms '
              'or with an unknown extension must raise ValueError.')
LEVEL_NOTE = ('Expectation from the C01 reference automaton applied to the truncated records; only "is a sub-multiset of the reported '
              'groups" is demanded. Simultaneous truncation of several residues beyond two atoms is outside the bound.')
TECHNIQUE = 'exhaustive enumeration of atom-deletion patterns up to a deviation bound; crash oracle plus reference census'
ASSUMPTIONS = ['reported = groups with use_in_calculations() in the conformation and in the average (summary rows are the subject of C01)']

AA20 = ('ALA', 'ARG', 'ASN', 'ASP', 'CYS', 'GLN', 'GLU', 'GLY', 'HIS', 'ILE', 'LEU', 'LYS', 'MET', 'PHE', 'PRO', 'SER', 'THR', 'TRP', 'TYR', 'VAL')


def tripeptide(rtype, position):
    """(items, index range of the residue to truncate) - real consecutive residues around a residue of the type."""
    lib = gen.library()
    for key, chain in (('3SGB', 'E'), ('3SGB', 'I'), ('1HPX', 'A'), ('4DFR', 'A'), ('1FTJ', 'A')):
        try:
            i = lib.find(key, chain, rtype, 0)
            break
        except IndexError:
            continue
    res = lib.protein_residues(key, chain)
    if position == 'middle':
        idx = [i - 1, i, i + 1]
    elif position == 'first':
        idx = [i, i + 1, i + 2] if i + 2 < len(res) else [i, i + 1]
    else:
        idx = [i - 2, i - 1, i]
    items, target = [], []
    for j in idx:
        atoms = [a.clone() for a in res[j][1] if a.name not in ('OXT', "O''")]
        for a in atoms:
            a.alt = ' '
        if j == i and position == 'last':
            atoms = c01.add_oxt(atoms)
        if j == i:
            target = atoms
        items += atoms
    return items, target


def plan(tier, seed):
    shards = []
    for rtype in AA20:
        for position in ('middle', 'first', 'last'):
            items, target = tripeptide(rtype, position)
            n = len(target)
            full = n <= 9 or (tier == 'thorough' and (position == 'middle' or n <= 11))
            if position != 'middle' and tier == 'quick' and rtype not in ('ASP', 'HIS', 'GLY', 'LYS', 'CYS'):
                continue
            if full:
                total = 2 ** n
                chunk = 256
                for start in range(0, total, chunk):
                    shards.append(('subsets', rtype, position, start, min(total, start + chunk)))
            else:
                shards.append(('deletions', rtype, position, 3 if n <= 11 else 2, None))
    cuts = corpus.cutouts(tier, radius=8.0, every=(2 if tier == 'thorough' else 8))
    for d in cuts:
        shards.append(('cutout', d, None, None, None))
    pairs = corpus.pairs('quick', kinds_a=('ASP', 'HIS', 'ARG', 'TYR', 'ASN', 'TRP', 'ACT', 'MGU', 'PYR', 'MPO'), kinds_b=('GLU', 'LYS', 'ARG', 'HIS', 'C-'),
                         dists=(2.8,), levels=('mid',))
    for d in pairs[:: (1 if tier == 'thorough' else 3)]:
        shards.append(('functional', d, None, None, None))
    # truncated residues inside multi-conformation inputs (conformations are completed from each other: atoms may be copies)
    for rtype in (('ASP', 'GLU', 'HIS', 'ARG', 'TYR', 'LYS', 'CYS', 'GLY') if tier == 'quick' else AA20):
        for position in ('middle', 'last'):
            shards.append(('multiconf', rtype, position, 2 if tier == 'quick' else 3, None))
    # truncations under options: the structure carries hydrogens (the program's own, written back) and is run with keep-protons /
    # protonate-all / both, with titrate-only lists that name the truncated residue, with -d and -c
    for rtype in (('ASP', 'HIS', 'ARG', 'TYR', 'LYS', 'CYS', 'SER', 'ASN', 'GLY') if tier == 'quick' else AA20):
        for position in ('middle', 'last'):
            shards.append(('options', rtype, position, None, None))
    shards.append(('reject', None, None, None, None))
    return dict(shards=shards, exhaustive=True,
                rule=('all atom subsets of one residue in a tripeptide (middle position: 20 types; first / last-with-OXT: 5 types quick, 20 '
                      'thorough; residues with more than 9 atoms: all deletions of <= 3 (<= 2 for > 11 atoms) atoms in the quick tier, all '
                      'subsets in the thorough tier for the middle position and for residues of <= 11 atoms at the termini); all deletions of <= 2 atoms and of each whole residue in 8 A cut-outs; all subsets of '
                      'the side-chain / ligand atoms of partner A in docked pairs (10x5 kinds); deletions of <= 2 (thorough 3) atoms of a residue '
                      'inside two-conformation inputs (alt-loc elsewhere; two models truncated alike; truncated in one model only); single-atom, '
                      'side-chain, backbone and whole-residue deletions from tripeptides that carry hydrogens, under 8 option sets (keep-protons, '
                      'protonate-all, both, -d, -c, titrate-only lists naming the truncated residue); rejection cases. non-trivial = distinct '
                      'truncated inputs that still contain at least one ionizable group by the reference census'),
                bounds=dict(shards=len(shards)), samples=[dict(rtype='ASP', position='middle', removed=['CG', 'OD1'])])


def multiconf_items(sub, full, context):
    """(items of the input, items whose census is expected in every conformation)"""
    cl = lambda its: [i.clone() if not isinstance(i, str) else i for i in its]   # noqa: E731
    if context == 'altloc-elsewhere':
        out = cl(sub)
        first = next(i for i, it in enumerate(out) if not isinstance(it, str) and it.name == 'CA')
        b = out[first].clone()
        out[first].alt, b.alt = 'A', 'B'
        b.x += 300
        out.insert(first + 1, b)
        return out, sub
    m = {'model-both': (sub, sub, sub), 'model-1-complete': (full, sub, full), 'model-2-complete': (sub, full, full)}[context]
    return ['MODEL        1\n'] + cl(m[0]) + ['TER\n', 'ENDMDL\n', 'MODEL        2\n'] + cl(m[1]) + ['TER\n', 'ENDMDL\n'], m[2]


OPTION_SETS = (('--keep-protons',), ('--protonate-all',), ('--keep-protons', '--protonate-all'), ('-d',), ('-c', 'A'), 'titrate-target', 'titrate-all',
               'titrate-all+keep')


def judge(case, items, acc, what, expect_items=None, opts=(), titrate_only=None):
    text = gen.to_text(items)
    atoms = [i for i in items if not isinstance(i, str)]
    if not atoms:
        return
    exp, info, st, tr = c01.census(items if expect_items is None else expect_items, titrate_only=titrate_only)
    acc.n += 1
    if exp:
        acc.nontrivial_n += 1
    try:
        mol = pk.run(text, opts)
        if len(exp) <= 1 or acc.n % 16 == 0:
            # the calculation includes the reported profiles, pI and the written file (few or no titratable groups left: flat curves)
            pk.pka_text(mol)
            mol.get_pi()
            acc.extra['written'] += 1
    except Exception as exc:
        acc.outcomes['raised'] += 1
        acc.viols.append(Viol(case, 'graceful', 'truncation-raises/' + exc_key(exc), '%s: %s: %s' % (what, type(exc).__name__, str(exc)[:120]),
                              inputs=dict(pdb=text)))
        return
    acc.outcomes['groups=%d' % min(len(exp), 9)] += 1
    for conf in list(mol.conformation_names) + ['AVR']:
        obs = collections.Counter(c01.key4(g) for g in c01.observed(mol, conf))
        want = collections.Counter(c01.key4(g) for g in exp)
        miss = want - obs
        if miss:
            k = sorted(miss)[0]
            acc.viols.append(Viol(case, 'graceful', 'group-lost-by-truncation/%s' % k[3], '%s: %s has defining atom but is not reported in %s' % (what, k, conf),
                                  inputs=dict(pdb=text)))
            break


def run_shard(shard, ctx):
    acc = Acc()
    kind = shard[0]
    off = gen.seed_offset(ctx.seed)
    if kind in ('subsets', 'deletions'):
        _, rtype, position, a, b = shard
        items, target = tripeptide(rtype, position)
        for it in items:
            it.x += off[0]
            it.y += off[1]
            it.z += off[2]
        n = len(target)
        if kind == 'subsets':
            masks = range(a, b)
        else:
            masks = []
            for k in range(0, a + 1):
                for comb in itertools.combinations(range(n), k):
                    m = (1 << n) - 1
                    for c in comb:
                        m &= ~(1 << c)
                    masks.append(m)
        for m in masks:
            keep = set(id(target[j]) for j in range(n) if m >> j & 1)
            sub = [it for it in items if not any(it is t for t in target) or id(it) in keep]
            removed = [target[j].name for j in range(n) if not m >> j & 1]
            case = dict(kind='residue', rtype=rtype, position=position, mask=m)
            judge(case, sub, acc, '%s %s without %s' % (rtype, position, removed))
    elif kind == 'multiconf':
        _, rtype, position, maxdel, _ = shard
        items, target = tripeptide(rtype, position)
        n = len(target)
        for k in range(1, maxdel + 1):
            for comb in itertools.combinations(range(n), k):
                for context in ('altloc-elsewhere', 'model-both', 'model-1-complete', 'model-2-complete'):
                    run_case(dict(kind='multiconf', rtype=rtype, position=position, drop=list(comb), context=context), ctx, acc)
    elif kind == 'options':
        _, rtype, position, _, _ = shard
        items, target = tripeptide(rtype, position)
        n = len(target)
        drops = [[j] for j in range(n)] + [[j for j in range(n) if target[j].name not in gen.BACKBONE + ('OXT',)], list(range(n)),
                                            [j for j in range(n) if target[j].name in gen.BACKBONE]]
        for drop in drops:
            if not drop:
                continue
            for k, o in enumerate(OPTION_SETS):
                run_case(dict(kind='options', rtype=rtype, position=position, drop=drop, optset=k), ctx, acc)
    elif kind == 'cutout':
        run_case(dict(kind='cutout', d=shard[1]), ctx, acc)
    elif kind == 'functional':
        run_case(dict(kind='functional', d=shard[1]), ctx, acc)
    elif kind == 'reject':
        run_case(dict(kind='reject'), ctx, acc)
    return acc


def run_case(case, ctx, acc):
    k = case['kind']
    off = gen.seed_offset(ctx.seed)
    if k == 'residue':
        items, target = tripeptide(case['rtype'], case['position'])
        for it in items:
            it.x += off[0]
            it.y += off[1]
            it.z += off[2]
        n = len(target)
        m = case['mask']
        keep = set(id(target[j]) for j in range(n) if m >> j & 1)
        sub = [it for it in items if not any(it is t for t in target) or id(it) in keep]
        judge(case, sub, acc, 'replay')
    elif k == 'multiconf':
        items, target = tripeptide(case['rtype'], case['position'])
        for it in items:
            it.x += off[0]
            it.y += off[1]
            it.z += off[2]
        gone = [target[j] for j in case['drop']]
        sub = [it for it in items if not any(it is g for g in gone)]
        inp, expect = multiconf_items(sub, items, case['context'])
        judge(case, inp, acc, '%s %s without %s (%s)' % (case['rtype'], case['position'], [g.name for g in gone], case['context']), expect_items=expect)
    elif k == 'options':
        from . import c07
        items, target = tripeptide(case['rtype'], case['position'])
        for it in items:
            it.x += off[0]
            it.y += off[1]
            it.z += off[2]
        full = gen.S(list(items))
        fed = c07.hydrogens_fed_back(full, pk.run(gen.to_text(full)))     # the complete structure with hydrogens
        if fed is None:
            acc.skipped += 1
            return
        gone = [target[j] for j in case['drop']]
        sub = [it for it in fed if not any(it is g for g in gone)]          # heavy atoms removed, their hydrogens stay
        o = OPTION_SETS[case['optset']]
        tkey = (target[0].chain, target[0].resnum, target[0].icode)
        allkeys = []
        for it in items:
            if it.reskey not in allkeys:
                allkeys.append(it.reskey)
        arg = lambda ks: ','.join('%s:%d%s' % (c, n_, i.strip()) for c, n_, i in ks)   # noqa: E731
        kw = {}
        if o == 'titrate-target':
            o, kw = ('-i', arg([tkey])), dict(titrate_only=[tkey])
        elif o == 'titrate-all':
            o, kw = ('-i', arg(allkeys)), dict(titrate_only=allkeys)
        elif o == 'titrate-all+keep':
            o, kw = ('-i', arg(allkeys), '--keep-protons'), dict(titrate_only=allkeys)
        elif o == ('-c', 'A'):
            o = ('-c', target[0].chain)
        heavy_sub = [it for it in sub if isinstance(it, str) or it.element != 'H']
        judge(case, sub, acc, '%s %s without %s, options %s' % (case['rtype'], case['position'], [g.name for g in gone], ' '.join(o)),
              expect_items=heavy_sub, opts=tuple(o), **kw)
    elif k == 'cutout':
        s = corpus.build(case['d'], ctx.seed)
        atoms_idx = [i for i, it in enumerate(s.items) if not isinstance(it, str)]
        if 'drop' in case:
            judge(case, [it for i, it in enumerate(s.items) if i not in case['drop']], acc, 'replay')
            return
        for i in atoms_idx:
            judge(dict(case, drop=[i]), [it for j, it in enumerate(s.items) if j != i], acc, 'cut-out without atom %d' % i)
        step = max(1, len(atoms_idx) // (16 if ctx.tier == 'quick' else 120))
        sel = atoms_idx[::step]
        for i, j in itertools.combinations(sel, 2):
            judge(dict(case, drop=[i, j]), [it for q, it in enumerate(s.items) if q not in (i, j)], acc, 'cut-out without atoms %d,%d' % (i, j))
        by_res = collections.OrderedDict()
        for i in atoms_idx:
            by_res.setdefault(s.items[i].reskey, []).append(i)
        for rk, idxs in by_res.items():
            judge(dict(case, drop=idxs), [it for q, it in enumerate(s.items) if q not in idxs], acc, 'cut-out without residue %s' % (rk,))
            side = [i for i in idxs if s.items[i].name not in gen.BACKBONE]
            if side:
                judge(dict(case, drop=side), [it for q, it in enumerate(s.items) if q not in side], acc, 'cut-out without side chain %s' % (rk,))
            bb = [i for i in idxs if s.items[i].name in gen.BACKBONE]
            judge(dict(case, drop=bb), [it for q, it in enumerate(s.items) if q not in bb], acc, 'cut-out without backbone %s' % (rk,))
    elif k == 'functional':
        s = corpus.build(case['d'], ctx.seed)
        a_kind = case['d']['a']
        part = [i for i, it in enumerate(s.items) if not isinstance(it, str) and it.chain == 'A'
                and (it.rec == 'HETATM' or (it.resname == a_kind and it.name not in ('N', 'C', 'O')))]
        part = part[:9]
        if 'drop' in case:
            judge(case, [it for q, it in enumerate(s.items) if q not in case['drop']], acc, 'replay')
            return
        for r in range(1, len(part) + 1):
            for comb in itertools.combinations(part, r):
                judge(dict(case, drop=list(comb)), [it for q, it in enumerate(s.items) if q not in comb], acc,
                      'pair without %s' % [s.items[q].name for q in comb])
    elif k == 'reject':
        lib = gen.library()
        good = gen.to_text(lib.window('3SGB', 'I', 26, 3))
        cases = [('empty', '', 'x.pdb'), ('remark-only', 'REMARK nothing\nEND\n', 'x.pdb'), ('water-only', 'HETATM    1  O   HOH A   1       0.000   0.000   0.000  1.00  0.00           O\n', 'x.pdb'),
                 ('hydrogens-only', 'ATOM      1  H   ALA A   1       0.000   0.000   0.000  1.00  0.00           H\n', 'x.pdb'),
                 ('ext-none', good, 'x'), ('ext-txt', good, 'x.txt'), ('ext-pqr', good, 'x.pqr'), ('ext-gz', good, 'x.pdb.gz'), ('ext-mol2', good, 'x.mol2'),
                 ('ext-upper', good, 'x.PDB'), ('ext-mixed', good, 'x.Pdb'),
                 ('ext-pdbqt', good, 'x.pdbqt'), ('ext-pdbx', good, 'x.pdbx'), ('ext-pdb1', good, 'x.pdb1'), ('ext-pdb-tilde', good, 'x.pdb~'),
                 ('ext-PDBQT', good, 'x.PDBQT'), ('ext-pdb.bak', good, 'x.pdb.bak'), ('ext-pdb_bak', good, 'x.pdb_bak'), ('ext-ent', good, 'x.ent'),
                 ('ext-dot', good, 'x.'), ('ext-cif', good, 'x.cif')]
        for name, text, fname in cases:
            acc.n += 1
            acc.nontrivial_n += 1
            want_error = not name.startswith('ext-u') and not name.startswith('ext-mi')
            try:
                propka.run.single(fname, stream=io.StringIO(text), write_pka=False)
                got = None
            except ValueError:
                got = 'ValueError'
            except Exception as exc:
                got = type(exc).__name__
            acc.outcomes['reject:%s' % got] += 1
            if want_error and got != 'ValueError':
                acc.viols.append(Viol(dict(kind='reject'), 'reject', 'bad-input-not-rejected-with-ValueError/%s' % name, '%s: got %r' % (name, got)))
            if not want_error and got is not None:
                acc.viols.append(Viol(dict(kind='reject'), 'reject', 'good-input-rejected/%s' % name, '%s: got %r' % (name, got)))
            # the same through propka.input.read_molecule_file with the name given as a path object / as a string
            for as_path in (True, False):
                acc.n += 1
                try:
                    options = propka.lib.loadOptions([fname])
                    prm = propka.input.read_parameter_file(options.parameters, propka.parameters.Parameters())
                    molc = MolecularContainer(prm, options)
                    propka.input.read_molecule_file(pathlib.Path(fname) if as_path else fname, molc, stream=io.StringIO(text))
                    got2 = None
                except ValueError:
                    got2 = 'ValueError'
                except Exception as exc:     # noqa: BLE001
                    got2 = type(exc).__name__
                if want_error and got2 != 'ValueError':
                    acc.viols.append(Viol(dict(kind='reject'), 'reject', 'bad-input-not-rejected-with-ValueError/%s/read_molecule_file-%s' % (
                        name, 'Path' if as_path else 'str'), '%s: got %r' % (name, got2)))
                if not want_error and got2 is not None:
                    acc.viols.append(Viol(dict(kind='reject'), 'reject', 'good-input-rejected/%s/read_molecule_file-%s' % (name, 'Path' if as_path else 'str'),
                                          '%s: got %r' % (name, got2)))

"""C14 - titrate_only restricts titration exactly to the listed residues."""
import itertools

from ..core import Acc, Viol, jhash
from .. import pk, gen, cmp, corpus
from . import c01

ID = 'C14'
HORIZON_S = 1800   # one case = one input under all its transformations
LEVEL = 'exploration'
LEVEL_TEXT = ('For every input of the corpus (windows, cut-outs, docked pairs with ligands/ions, clusters, insertion-coded and '
              'blank-chain record streams) the default run fixes the set of reportable residues; then every subset of those '
              'residues (all 2^n for n <= 6 quick / 8 thorough, otherwise singletons, complements of singletons and the full '
              'set) is passed with -i, with and without non-existent entries, and the real result is compared with the '
              'default run: reported set and titratable flags, absence of Coulomb determinants towards unlisted groups, '
              'identity of desolvation, backbone and non-iterative side-chain determinants of listed groups, and full-record '
              'equality for the complete list.')
LEVEL_NOTE = ('Differential oracle against the default run of the same input. Side-chain determinants of iteratively treated '
              'pairs may legitimately change with the list and are not compared.')
TECHNIQUE = 'exhaustive enumeration of residue subsets over a bounded input corpus; differential comparison of real executions'
ASSUMPTIONS = ["a blank chain is addressed as '_' in the list"]


def inputs(tier):
    out = []
    for d in corpus.windows(tier, k=4 if tier == 'quick' else 6):
        out.append(dict(src='corpus', d=d))
    for d in corpus.pairs(tier, kinds_a=('ASP', 'HIS', 'CYS', 'TYR', 'N+'), kinds_b=('LYS', 'GLU', 'ARG', 'C-', 'CA', 'MAM', 'ACT', 'CYS', 'SER', 'ASN'),
                          dists=(3.0,) if tier == 'quick' else (2.03, 3.0, 6.0), levels=('mid',) if tier == 'quick' else ('mid', 'deep')):
        out.append(dict(src='corpus', d=d))
    out.append(dict(src='corpus', d=corpus.pair_desc('CYS', 'CYS', 2.03, 'mid')))     # a disulfide: listing it must not make it titrate
    # a buried histidine between an aspartate and a C-terminal carboxylate: the hydrogen bonds exist through the buried COO-HIS rule (KF-C14-1)
    out.append(dict(src='corpus', d=corpus.cluster_desc(('ASP', 'HIS', 'C-'), 'line', 3.0, 'deep')))
    for d in corpus.clusters(tier)[:: (1 if tier == 'thorough' else 3)]:
        out.append(dict(src='corpus', d=d))
    for d in corpus.cutouts(tier, radius=9.0)[:: (1 if tier == 'thorough' else 2)]:
        out.append(dict(src='corpus', d=d))
    # multi-conformation inputs in which conformations are completed from each other
    for lay in ([[' ', 'ASP'], ['B', 'ASPs']], [['A', 'ASP'], ['B', 'ASPs'], ['C', 'ASP']]):
        for partial in (False, True):
            out.append(dict(src='c08', d=dict(kind='alt', layout=lay, partial=partial) if partial else dict(kind='alt', layout=lay)))
    for lay in ([[1, 'ASP'], [2, 'ASPnoCG']], [[1, 'ASPnoCG'], [2, 'ASP']], [[1, 'ASP'], [2, 'ALA']]):
        out.append(dict(src='c08', d=dict(kind='model', layout=lay)))
    # chains that start with an Asp / Cys / His (two ionizable groups within three bonds) next to a partner in another chain; sites with
    # non-covalently coupled pairs
    for tb in ([['A', 25]], [['B', 25]], [['A', 25], ['B', 25]]):
        d = corpus.cutout_desc('1HPX', 'A', 24, 12.0)
        d['ter_before'] = tb
        out.append(dict(src='corpus', d=d))
    lib = gen.library()
    for key, ch, num in (('3SGB', 'E', 102), ('3SGB', 'E', 57), ('1HPX', 'A', 59), ('1FTJ', 'A', 193), ('3SGB', 'I', 7)):
        res = lib.protein_residues(key, ch)
        idx = next((i for i, (k_, _) in enumerate(res) if k_[1] == num), None)
        if idx is not None:
            out.append(dict(src='corpus', d=corpus.cutout_desc(key, ch, idx, 10.0)))
    # residues that follow each other in the file, carry the same number and differ in the chain id only (free amino acids, ligand copies)
    for a, b in (('ASP', 'LYS'), ('GLU', 'HIS'), ('TYR', 'ARG'), ('ACT', 'ACT'), ('MAM', 'ACT'), ('CYS', 'CYS')):
        out.append(dict(src='samenum', a=a, b=b))
    for c in c01.stream_cases('quick'):
        toks = c['tokens']
        if len(toks) == 3 and c['dev'] <= 1 and (any(t[1] == 'twin' or t[2] == 'blank' for t in toks[1:]) or c['start'][0] < 0) and \
                all(t[0] in ('GLU', 'LYS') for t in toks):
            out.append(dict(src='stream', d=c))
    return out


def build(inp, seed):
    if inp['src'] == 'c08':
        from . import c08
        return c08.build(dict(inp['d'], layout=[tuple(x) for x in inp['d']['layout']]), seed)
    if inp['src'] == 'stream':
        items = c01.build_stream(inp['d'], seed)
        return None if items is None else gen.S(items)
    if inp['src'] == 'samenum':
        parts = []
        for k, (kind, chain) in enumerate(((inp['a'], 'A'), (inp['b'], 'B'))):
            if kind in gen.TEMPLATES:
                part = gen.ligand(kind, chain, 7, origin=(0, 0, 0))
            else:
                atoms = c01.add_oxt(c01.token_residue(kind))
                for a in atoms:
                    a.chain, a.resnum = chain, 7
                part = gen.S(atoms)
            part.translate((7000 * k, 300 * k, 0))
            parts.append(part)
        return gen.S(parts[0].items + ['TER\n'] + parts[1].items + ['TER\n']).translate(gen.seed_offset(seed)).renumber_serials()
    return corpus.build(inp['d'], seed)


def main_two_files(case, ctx, acc):
    """propka.run.main with two structures and one titrate-only list: entries that name nothing in the first file must still
    select their residues in the second (and vice versa); each file's result equals its single run with the same list."""
    import io
    import os
    import sys
    import propka.run
    lib = gen.library()
    fa = gen.to_text(lib.window('3SGB', 'I', case['a'], 6))
    fb = gen.to_text(lib.window('3SGB', 'I', case['b'], 6))
    ra0 = pk.record(pk.run(fa))
    rb0 = pk.record(pk.run(fb))

    def rep(r):
        out = []
        for g in r['confs']['AVR']['groups']:
            k = reskey_of(g)
            if k not in out:
                out.append(k)
        return out
    entries = rep(ra0)[:2] + rep(rb0)[:2] + [('I', 9990, ' ')]
    arg = arg_of(entries)
    names = ['first_%d.pdb' % case['a'], 'second_%d.pdb' % case['b']]
    for nm, tx in zip(names, (fa, fb)):
        with open(nm, 'w') as fh:
            fh.write(tx)
    old, saved = sys.argv, sys.stdout
    sys.argv = ['propka3', names[1], '-f', names[0], '-i', arg, '-q']    # main processes -f files first, the positional one last
    sys.stdout = io.StringIO()
    try:
        propka.run.main()
    finally:
        sys.argv, sys.stdout = old, saved
    acc.case(nontrivial_key=jhash(case), outcome='main-two-files')
    for nm, tx in zip(names, (fa, fb)):
        with open(nm[:-4] + '.pka') as fh:
            got = pk.parse_pka(fh.read())
        single = pk.run(tx, ('-i', arg), name='x.pdb', write=True)
        want = pk.parse_pka(single._pka_text)
        a = [(r['label'], r['pka']) for r in got['summary']]
        b = [(r['label'], r['pka']) for r in want['summary']]
        if a != b:
            acc.viols.append(Viol(case, 'titrate-only', 'main-two-files/list-not-applied-per-file',
                                  '%s: summary %s, single run with the same list %s' % (nm, a, b), inputs=dict(first=fa, second=fb, opts=['-i', arg])))
        os.unlink(nm[:-4] + '.pka')


def plan(tier, seed):
    ins = inputs(tier)
    shards = [ins[i:i + 6] for i in range(0, len(ins), 6)]
    shards += [[dict(src='main', a=a, b=b)] for a, b in ((7, 27), (27, 7), (17, 45), (45, 17))]
    return dict(shards=shards, exhaustive=True,
                rule=('inputs: 4/6-residue windows of 4 proteins, docked pairs (5x10 kinds), clusters, 9 A cut-outs, twin/blank-chain '
                      'streams; lists: all subsets of the reportable residues when there are <= %d of them, else singletons, '
                      'singleton complements and the full set; each list also with two non-existent entries appended, the empty and singleton lists also with near-miss entries '
                      '(real number under an absent chain id / another insertion code / +1000); residues of different chains with equal numbers that follow each other in the file; the '
                      'list of every residue of the structure. also multi-conformation layouts, cut-outs with covalently coupled and non-covalently coupled sites, chains starting with Asp/Cys/His; for docked pairs and clusters every list with exactly one unlisted residue is also run with the chains written in reverse order (judged where the run without the option does not depend on the order). non-trivial = distinct (input, list) where the list selects a '
                      'proper non-empty subset of the reportable residues') % (6 if tier == 'quick' else 8),
                bounds=dict(inputs=len(ins), max_full_subsets=6 if tier == 'quick' else 8), samples=[ins[0], ins[len(ins) // 2]])


def reskey_of(g):
    k = g['key'].split(':')
    num = k[1]
    digits = num.rstrip('ABCDEFGHIJKLMNOPQRSTUVWXYZ')
    return (k[0], int(digits), num[len(digits):] or ' ')


def arg_of(keys):
    return ','.join('%s:%d%s' % (c, n, i.strip()) for c, n, i in keys)


def run_case(case, ctx, acc):
    if case.get('src') == 'main':
        return main_two_files(case, ctx, acc)
    s = build(case, ctx.seed)
    if s is None:
        acc.skipped += 1
        return
    text = gen.to_text(s)
    m0 = pk.run(text)
    r0 = pk.record(m0)
    params = m0.version.parameters
    reportable = []
    for conf in r0['conformations']:
        for g in r0['confs'][conf]['groups']:
            if g['use'] and reskey_of(g) not in reportable:
                reportable.append(reskey_of(g))
    if not reportable:
        acc.skipped += 1
        return
    maxfull = 6 if ctx.tier == 'quick' else 8
    lists = []
    if len(reportable) <= maxfull:
        for k in range(0, len(reportable) + 1):
            for sub in itertools.combinations(reportable, k):
                lists.append(list(sub))
    else:
        for r in reportable:
            lists.append([r])
            lists.append([x for x in reportable if x != r])
        lists.append(list(reportable))
    ghost = [('X', 9999, ' '), (reportable[0][0], 8888, 'Z')]
    # near misses: a real number under a chain id the file does not have, under another insertion code, and shifted by 1000
    other_chain = next(c for c in 'QWXYZK' if c not in {r[0] for r in reportable})
    near = [(other_chain, r[1], r[2]) for r in reportable[:3]] + [(r[0], r[1], 'Z' if r[2] != 'Z' else 'Y') for r in reportable[:2]] + \
        [(r[0], r[1] + 1000, r[2]) for r in reportable[:1]]
    allres = []
    for a in s.atoms:
        k = (a.chain.strip() or '_', a.resnum, a.icode)
        if k not in allres:
            allres.append(k)
    jobs = [(L, False) for L in lists] + [(L, True) for L in lists if len(L) in (1, len(reportable))]
    if len(allres) <= 60:
        jobs.append((allres, False))
    jobs += [(L, 'near') for L in lists if len(L) in (0, 1)]
    for L, with_ghost in jobs:
        entries = list(L) + (near if with_ghost == 'near' else (ghost if with_ghost or not L else []))
        opts = ('-i', arg_of(entries))
        sub = dict(case, titrate_only=opts[1])
        m = pk.run(text, opts)
        r = pk.record(m)
        acc.n += 1
        listed = set(L)
        if 0 < len(listed & set(reportable)) < len(reportable):
            acc.nontrivial.add(jhash(sub))
        acc.outcomes['%d/%d' % (len(listed & set(reportable)), len(reportable))] += 1
        v = []
        for name in r['conformations'] + ['AVR']:
            gs = {g['key']: g for g in r['confs'][name]['groups']}
            g0s = {g['key']: g for g in r0['confs'][name]['groups']}
            # (1) reported set and titratable flags
            want = sorted(k for k, g in g0s.items() if g['use'] and reskey_of(g) in listed)
            got = sorted(k for k, g in gs.items() if g['use'])
            if want != got:
                miss, extra = sorted(set(want) - set(got)), sorted(set(got) - set(want))
                kind = (miss or extra)[0].split(':')[-1]
                v.append(('reported-set/%s/%s' % ('listed-missing' if miss else 'unlisted-reported', kind),
                          '%s: missing %s, extra %s' % (name, miss, extra)))
            if name == 'AVR':
                continue
            for k, g in gs.items():
                g0 = g0s.get(k)
                if g0 is None:
                    v.append(('group-set-changed', '%s appears only with the list' % k))
                    continue
                if g['titratable'] != (g0['titratable'] and reskey_of(g) in listed):
                    v.append(('titratable-flag/%s' % g['type'], '%s titratable=%s' % (k, g['titratable'])))
                # (2) no Coulomb determinant towards unlisted groups
                for pkey, lab, val in g['dets']['coulomb']:
                    p0 = g0s.get(pkey)
                    if p0 is not None and p0['type'] != 'ION' and reskey_of(p0) not in listed:
                        v.append(('coulomb-from-unlisted', '%s has Coulomb determinant %r from unlisted %s' % (k, val, pkey)))
                # (2a') exactly the listed groups are treated as titratable: an unlisted group is never discarded ("penalised") as the losing
                # member of a covalently coupled titrating system - it has to stay in place as hydrogen-bond partner
                if reskey_of(g) not in listed and g['penalised_by']:
                    v.append(('unlisted-group-penalised-as-titrating', '%s is unlisted but discarded in favour of %s' % (k, g['penalised_by'])))
                # (2a) only titrating groups can be coupled: a listed group is never marked as coupled with an unlisted one
                for pkey in g['coupled']:
                    p0 = g0s.get(pkey)
                    if p0 is not None and reskey_of(p0) not in listed and reskey_of(g) in listed:
                        v.append(('coupled-with-unlisted-group', '%s is marked as non-covalently coupled with unlisted %s' % (k, pkey)))
                # (2b) an unlisted group that is the hydrogen-bond partner of a listed one keeps its own (non-iterative) hydrogen bonds
                # with other unlisted residues: they decide the pKa it enters the iterative treatment of the listed group with
                if reskey_of(g) not in listed and g0['dets']['sidechain'] and listed:
                    partner_of_listed = any(g0s.get(pk_) is not None and reskey_of(g0s[pk_]) in listed for pk_, _, _ in g0['dets']['sidechain'])
                    if partner_of_listed:
                        have = {x[0] for x in g['dets']['sidechain']}
                        for pkey, lab, val in g0['dets']['sidechain']:
                            p0 = g0s.get(pkey)
                            if (p0 is not None and reskey_of(p0) not in listed and pkey not in have
                                    and params.interaction_matrix.get_value(g0['type'], p0['type']) == 'N' and not g0['cov_coupled'] and not p0['cov_coupled']):
                                v.append(('unlisted-partner-loses-its-hydrogen-bonds', '%s (partner of a listed group) lost %r from unlisted %s' % (k, val, pkey)))
                # (3) environment terms of listed groups unchanged
                if g['titratable']:
                    for f in ('num_volume', 'buried', 'energy_volume', 'energy_local', 'num_local'):
                        if not cmp.close(g[f], g0[f]):
                            v.append(('environment-changed/%s' % f, '%s %s %r default %r' % (k, f, g[f], g0[f])))
                    # backbone partners of the default run must all survive with the same value (a list can only remove
                    # penalisations, whose label-based determinant removal also hits backbone groups of the penalised residue)
                    lostbb = [x for x in g0['dets']['backbone'] if not any(x[0] == y[0] and cmp.close(x[2], y[2]) for y in g['dets']['backbone'])]
                    if lostbb:
                        v.append(('hbond-partner-lost/backbone', '%s lost backbone %r (with list: %r)' % (k, lostbb, g['dets']['backbone'])))

                    def nside(grec, table):
                        out = []
                        for pkey, lab, val in grec['dets']['sidechain']:
                            pt = table.get(pkey)
                            if pt is not None and params.interaction_matrix.get_value(grec['type'], pt['type']) == 'N':
                                out.append((pkey, round(val, 12)))
                        return sorted(out)
                    # unlisted residues must still act as hydrogen-bond partners: nothing the default run has may be lost
                    # (a list can only remove covalent couplings, so it can add pairs the default run skipped, never drop one)
                    # iteratively treated pairs of equal charge sign (acid-acid, base-base) always book the hydrogen bond on both
                    # groups, whatever the pKa values: the partner must not disappear when it is unlisted
                    for pkey, lab, val in g0['dets']['sidechain']:
                        p0 = g0s.get(pkey)
                        if (p0 is not None and params.interaction_matrix.get_value(g0['type'], p0['type']) == 'I'
                                and g0['charge'] * p0['charge'] > 0 and reskey_of(p0) not in listed
                                and not any(x[0] == pkey for x in g['dets']['sidechain'])):
                            v.append(('hbond-partner-lost/sidechain-I-same-charge', '%s lost its hydrogen bond with unlisted %s (default %r)' % (k, pkey, val)))
                    # iteratively treated acid-base pairs book the hydrogen bond on both groups whenever the acid is the more acidic
                    # of the two (values without the pair's own contribution).  If the bond of the default run is absent with the list,
                    # the values of this run are values without it, so the acid must not be more acidic than the base
                    for pkey, lab, val in g0['dets']['sidechain']:
                        p0, p1 = g0s.get(pkey), gs.get(pkey)
                        if (p0 is not None and p1 is not None and params.interaction_matrix.get_value(g0['type'], p0['type']) == 'I'
                                and g0['charge'] * p0['charge'] < 0 and reskey_of(p0) not in listed
                                and not any(x[0] == pkey for x in g['dets']['sidechain'])):
                            acid, base = (g, p1) if g0['charge'] < 0 else (p1, g)
                            if acid['pka'] < base['pka'] - 0.01:
                                # (a bond that exists in the default run only through the buried COO-HIS rule is a separate class)
                                rule = (({g0['type'], p0['type']} == {'COO', 'HIS'} and abs(abs(val) - params.COO_HIS_exception) < 1e-9)
                                        or ({g0['type'], p0['type']} == {'OCO', 'HIS'} and abs(abs(val) - params.OCO_HIS_exception) < 1e-9))
                                v.append(('hbond-partner-lost/sidechain-I-acid-base' + ('/buried-coo-his-rule' if rule else ''), '%s lost its hydrogen bond with unlisted %s (default %r) although pKa(acid) %.2f < pKa(base) %.2f' % (
                                    k, pkey, val, acid['pka'], base['pka'])))
                    lost = [x for x in nside(g0, g0s) if x not in nside(g, gs)]
                    if lost:
                        v.append(('hbond-partner-lost/sidechain-N', '%s lost %r (default %r)' % (k, lost, nside(g0, g0s))))
        # (4) complete list == no option ; ghosts have no effect
        if listed >= set(reportable) and (L is allres or with_ghost or set(L) == set(reportable)):
            if L is allres:
                d = cmp.diff_records(r, r0)
                if d:
                    v.append(('all-residues-differs-from-default/%s' % d[0][0], str(d[0])[:300]))
        seen = set()
        for ck, what in v:
            if ck not in seen:
                seen.add(ck)
                acc.viols.append(Viol(sub, 'titrate-only', ck, what, inputs=dict(pdb=text, opts=list(opts))))
    # the option must not make the result depend on the order in which the chains are written where the calculation without the
    # option does not: an unlisted residue acts as hydrogen-bond partner exactly as it does in the unrestricted calculation, whose
    # pairwise rules look at the two groups, not at their position in the file
    if case.get('src') == 'corpus' and case['d'].get('t') in ('pair', 'cluster'):
        blocks, cur = [], []
        for it in s.items:
            cur.append(it)
            if isinstance(it, str) and it.startswith('TER'):
                blocks.append(cur)
                cur = []
        if cur:
            blocks.append(cur)
        if len(blocks) > 1:
            text_sw = gen.to_text(gen.S([it for b in reversed(blocks) for it in b]).renumber_serials())
            if cmp.diff_records(r0, pk.record(pk.run(text_sw)), tol=1e-9, keymap=str):
                acc.extra['chain_order_matters_without_the_option(swap not judged)'] += 1
            else:
                for L in lists:
                    # (exactly one unlisted residue: two or more unlisted groups of one type all sit at their model pKa - they get no
                    # desolvation - and the program breaks that exact tie by position in the file, which the statement does not forbid)
                    if len(L) == len(reportable) - 1 and len(L) > 0:
                        opts = ('-i', arg_of(L))
                        d = cmp.diff_records(pk.record(pk.run(text, opts)), pk.record(pk.run(text_sw, opts)), tol=1e-9, keymap=str)
                        acc.n += 1
                        acc.extra['chain_order_swaps'] += 1
                        if d:
                            acc.viols.append(Viol(dict(case, titrate_only=opts[1], swap=True), 'titrate-only',
                                                  'list-makes-result-depend-on-chain-order/%s' % d[0][0], str(d[0])[:300],
                                                  inputs=dict(pdb=text, pdb_swapped=text_sw, opts=list(opts))))
    # ghosts: record with ghosts == record without (same list)
    for L in lists:
        if len(L) in (1, len(reportable)):
            ra = pk.record(pk.run(text, ('-i', arg_of(L))))
            rb = pk.record(pk.run(text, ('-i', arg_of(list(L) + ghost))))
            d = cmp.diff_records(ra, rb, tol=0.0)
            acc.n += 1
            if d:
                acc.viols.append(Viol(dict(case, titrate_only=arg_of(L), ghost=True), 'titrate-only', 'nonexistent-entry-has-effect/%s' % d[0][0],
                                      str(d[0])[:300], inputs=dict(pdb=text)))

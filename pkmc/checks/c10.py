"""C10 - folding free energy obeys proton linkage and is reported on the requested grid and window."""
import itertools
import math

from ..core import Acc, Viol, jhash
from .. import pk, gen, profiles as pf

ID = 'C10'
LEVEL = 'exploration'
LEVEL_TEXT = ('Exhaustive enumeration of (group multiset x pKa assignment x (min,max,step) grid x window x reference state): '
              'containers produced by the real pipeline, with predicted pKa values overwritten from a lattice, are asked for '
              'their folding and charge profiles through the API and through the written .pka file (options -g/-w passed on '
              'the command line); the pH-dependent part is compared with the closed-form proton-linkage integral and with a '
              'trapezoid integral of the reported charge profile, the optimum and ranges are recomputed from the returned '
              'profile, and the grid points returned/printed are compared with the requested grid and window lattice.')
LEVEL_NOTE = ('Reference: pkmc/profiles.py. Windows whose lower edge is not on the grid, and grid points that are neither on '
              'nor clearly off the window lattice (within 0.06), are skipped as ambiguous and counted.')
TECHNIQUE = 'exhaustive enumeration of option lattices and container states against closed-form references'
ASSUMPTIONS = ['overwriting Group.pka_value of the AVR groups is a faithful way to reach arbitrary predicted values']


def grids(tier):
    out = []
    mins = (0.0, 1.0, 2.5)
    spans = (0.3, 1.0, 6.0, 14.0)
    steps = (0.05, 0.1, 0.25, 0.3, 0.5, 0.7, 1.0, 2.0)
    for lo in mins:
        for span in spans:
            for st in steps:
                if st > span + 1e-9:
                    continue
                if tier == 'quick' and (lo, span) not in ((0.0, 14.0), (1.0, 1.0), (2.5, 6.0), (0.0, 0.3), (1.0, 6.0)):
                    continue
                out.append((lo, lo + span, st))
    out += [(6.0, 8.0, 0.125), (6.5, 6.6, 0.005), (0.125, 2.125, 0.25)]      # finer than two decimals
    return out


def windows(tier, grid):
    lo, hi, st = grid
    out = [(0.0, 14.0, 1.0)]
    for w2 in (0.5, 1.0, 2.0, 3.0):
        for w0 in (0.0, 2.0, 3.0):
            out.append((w0, w0 + 6.0, w2))
    # window limits that are not exactly representable as binary fractions
    frac = [(0.0, 0.3, 0.1), (2.0, 2.3, 0.1), (0.0, 0.7, 0.1), (0.0, 0.15, 0.05), (1.0, 1.3, 0.3), (2.6, 3.1, 0.1), (0.1, 0.7, 0.2)]
    return (out if tier == 'thorough' else out[:1] + out[1::3]) + frac


def sig_assignments(tier):
    sigs = ['', 'A', 'B', 'AB', 'AA'] + (['BB', 'ABH', 'AABB'] if tier == 'thorough' else [])
    out = []
    for s in sigs:
        lat = (0.0, 3.8, 7.0, 10.5) if len(s) >= 3 or tier == 'quick' else pf.PKA_LATTICE
        for vals in itertools.product(lat, repeat=len(s)):
            if all(not (s[i] == s[i - 1] and vals[i] < vals[i - 1]) for i in range(1, len(s))):
                out.append((s, vals))
    # profiles with two separate wells (below zero / below 80 % of the optimum in two pH intervals)
    out += [('AAB', (-3.0, 7.0, 7.0)), ('ABH', (10.5, 6.5, 3.8)), ('ABH', (6.5, 3.8, 10.5)), ('AAB', (-3.0, 6.5, 7.0))]
    return out


def plan(tier, seed):
    sa = sig_assignments(tier)
    gs = grids(tier)
    shards = []
    for s, vals in sa:
        for i in range(0, len(gs), 12):
            shards.append(('lattice', s, list(vals), gs[i:i + 12]))
    shards.append(('make_grid', None, None, None))
    for inp in (('file', '3SGB'), ('file', '1HPX'), ('pair', 'ASP', 'LYS', 2.8, 'mid'), ('pair', 'HIS', 'GLU', 3.0, 'deep'),
                ('pair', 'ACT', 'MAM', 2.9, 'exposed'), ('dna', 'DA', 'N1'), ('dna', 'DT', 'N3'),
                # ions (net charge), several conformations, groups that exist in some conformations only, a chain one model lacks
                ('pair', 'CA', 'GLU', 2.6, 'mid'), ('pair', 'ZN', 'HIS', 2.2, 'mid'), ('pair', 'CL', 'LYS', 3.0, 'mid'),
                ('c08', dict(kind='alt', layout=[('A', 'ASP'), ('B', 'ASPs')])), ('c08', dict(kind='alt', layout=[('A', 'ASP'), ('B', 'ALA')])),
                ('c08', dict(kind='alt', layout=[('A', 'ALA'), ('B', 'ASP'), ('C', 'ASPs')], lys=[('B', 'LYSs'), ('C', 'LYS')])),
                ('c08', dict(kind='model', layout=[(1, 'ASP'), (2, 'ASPnoCG'), (3, 'absent')])), ('kmodels', 'first-lacks-B')):
        shards.append(('real', list(inp), None, gs[::7]))
    return dict(shards=shards, exhaustive=True,
                rule=('grids (min,max,step): min in {0,1,2.5} x span in {0.3,1,6,14} x step in {.05,.1,.25,.3,.5,.7,1,2} plus three grids finer than two decimals (steps 0.125, 0.005, offset 0.125) '
                      '(quick: 5 of the 12 (min,span) pairs); windows (w0, w0+6, w2) for w0 in {0,2,3}, w2 in {.5,1,2,3} plus '
                      'the default and 7 windows with decimal-fraction limits (0-0.3, 2-2.3, 2.6-3.1 ...); group multisets %s with pKa from a 4/8-value lattice; both reference states through '
                      'the API; -g/-w passed as options for the written file. real inputs with ions, multi-conformation layouts and custom model pKa, per conformation, incl. the tables of files written for a single conformation; a second query after API edits. non-trivial = distinct (multiset, '
                      'assignment, grid, window) combinations') % ([s for s, _ in sa][-3:],),
                bounds=dict(grids=len(gs), assignments=len(sa)),
                samples=[dict(sig='AB', pkas=[3.8, 10.5], grid=[1.0, 2.0, 0.1], window=[0, 14, 2])])


def on_lattice(p, w0, w2):
    k = round((p - w0) / w2)
    return abs(p - (w0 + k * w2))


def oracle(mol_factory, case, acc, grid, wins, api_mol=None, cname='AVR'):
    """mol_factory(opts) -> fresh real container (with pKa overwritten) run with these options."""
    v = []
    lo, hi, st = grid
    pts = pf.ref_grid(lo, hi, st)
    mol = api_mol or mol_factory(())
    tri = pf.triples(mol, cname)
    n = max(1, len(tri))
    for ref in ('neutral', 'low-pH'):
        prof, opt, r80, stab = mol.get_folding_profile(conformation=cname, reference=ref, grid=grid)
        got = [p[0] for p in prof]
        if len(got) != len(pts) or any(abs(a - b) > 1e-6 for a, b in zip(got, pts)):
            miss = 'end-point-missing' if len(got) == len(pts) - 1 else 'points-differ'
            v.append(('folding-grid/%s' % miss, 'grid %s: %d points returned (last %r), %d requested (last %r)' % (
                grid, len(got), got[-1] if got else None, len(pts), pts[-1])))
        # proton linkage, closed form
        for (p1, d1), (p2, d2) in zip(prof, prof[1:]):
            want = pf.ref_ddg_ph(tri, p2) - pf.ref_ddg_ph(tri, p1)
            if abs((d2 - d1) - want) > 1e-9 * max(1.0, abs(want)):
                v.append(('proton-linkage/closed-form/%s' % ref, 'dG(%r)-dG(%r)=%r, 1.36*integral=%r' % (p2, p1, d2 - d1, want)))
                break
        # optimum and ranges from the returned profile
        if prof:
            dmin = min(d for _, d in prof)
            if opt[0] is None or abs(opt[1] - dmin) > 1e-12 or not any(p == opt[0] and d == opt[1] for p, d in prof):
                v.append(('optimum-not-minimum', 'opt %r, min of profile %r' % (opt, dmin)))
            w80 = [p for p, d in prof if d < 0.8 * dmin]
            exp80 = (min(w80), max(w80)) if w80 else (None, None)
            if tuple(r80) != exp80:
                v.append(('range80-inconsistent', 'r80 %r expected %r' % (r80, exp80)))
            ws = [p for p, d in prof if d < 0.0]
            exps = (min(ws), max(ws)) if ws else (None, None)
            if tuple(stab) != exps:
                v.append(('stability-range-inconsistent', 'range %r expected %r' % (stab, exps)))
    cprof = mol.get_charge_profile(conformation=cname, grid=grid)
    gotc = [r[0] for r in cprof]
    if len(gotc) != len(pts) or any(abs(a - b) > 1e-6 for a, b in zip(gotc, pts)):
        v.append(('charge-grid/%s' % ('end-point-missing' if len(gotc) == len(pts) - 1 else 'points-differ'),
                  'grid %s: %d points, %d requested' % (grid, len(gotc), len(pts))))
    # linkage between the two reported profiles (trapezoid, rigorous error bound h^3/12 * max|f''|)
    prof = mol.get_folding_profile(conformation=cname, reference='neutral', grid=grid)[0]
    if len(prof) == len(cprof):
        for i in range(len(prof) - 1):
            h = cprof[i + 1][0] - cprof[i][0]
            f0 = cprof[i][2] - cprof[i][1]
            f1 = cprof[i + 1][2] - cprof[i + 1][1]
            integral = 0.5 * h * (f0 + f1)
            bound = (h ** 3) / 12.0 * (2 * n * 0.52) + 1e-9
            if abs((prof[i + 1][1] - prof[i][1]) - 1.36 * integral) > 1.36 * bound:
                v.append(('proton-linkage/reported-profiles', 'step %r..%r: ddG=%r, 1.36*trapezoid=%r, bound %r' % (
                    cprof[i][0], cprof[i + 1][0], prof[i + 1][1] - prof[i][1], 1.36 * integral, 1.36 * bound)))
                break
    # written file with -g / -w
    for win in wins:
        w0, w1, w2 = win
        if on_lattice(w0, lo, st) > 1e-6 or on_lattice(w0, 0.0, w2) > 1e-6:
            acc.skipped += 1   # lower edge off the grid, or not a multiple of the window step: two readings
            continue
        amb = [p for p in pts if w0 - 1e-9 <= p <= w1 + 1e-9 and 1e-6 < on_lattice(p, w0, w2) < 0.06]
        if amb:
            acc.skipped += 1
            continue
        opts = ('-g', repr(lo), repr(hi), repr(st), '-w', repr(w0), repr(w1), repr(w2))
        m2 = mol_factory(opts)
        text = pk.pka_text(m2)
        p = pk.parse_pka(text)
        rows = [r[0] for r in p['folding']]
        exp_rows = [x for x in pts if w0 - 1e-9 <= x <= w1 + 1e-9 and on_lattice(x, w0, w2) <= 1e-6]
        if len(rows) != len(exp_rows) or any(abs(a - b) > 0.00501 for a, b in zip(rows, exp_rows)):
            extra = [r for r in rows if all(abs(r - e) > 0.00501 for e in exp_rows)]
            missing = [e for e in exp_rows if all(abs(r - e) > 0.00501 for r in rows)]
            kind = 'rows-off-lattice' if extra and not missing else ('rows-missing' if missing and not extra else 'rows-differ')
            if missing and abs(missing[-1] - pts[-1]) < 1e-6 and len(missing) == 1 and not extra:
                kind = 'end-point-missing'
            v.append(('window/%s' % kind, 'grid %s window %s: printed %s expected %s' % (grid, win, rows[:12], [round(e, 3) for e in exp_rows[:12]])))
        crow = [r[0] for r in p['charge']]
        if len(crow) != len(pts) or any(abs(a - b) > 0.00501 for a, b in zip(crow, pts)):
            v.append(('charge-table-grid/%s' % ('end-point-missing' if len(crow) == len(pts) - 1 else 'points-differ'),
                      'grid %s: %d rows printed, %d requested' % (grid, len(crow), len(pts))))
        # printed folding values equal the API values
        prof2 = dict((round(a, 3), d) for a, d in m2.get_folding_profile(conformation='AVR', grid=tuple(m2.options.grid))[0])
        for ph, dg in p['folding']:
            d = prof2.get(round(ph, 3))
            if d is not None and abs(d - dg) > 0.00501:
                v.append(('folding-table-value', 'pH %.2f printed %.2f API %r' % (ph, dg, d)))
                break
        opt = m2.get_folding_profile(conformation='AVR', grid=tuple(m2.options.grid))[1]
        if p['opt'] is not None and opt[0] is not None and (abs(p['opt'][0] - opt[0]) > 0.0501 or abs(p['opt'][1] - opt[1]) > 0.0501):
            v.append(('optimum-line', 'printed %r API %r' % (p['opt'], opt)))
        acc.extra['files_written'] += 1
    seen = set()
    for ck, what in v:
        if cname != 'AVR':
            ck += '/single-conformation'
        if ck not in seen:
            seen.add(ck)
            acc.viols.append(Viol(case, 'linkage', ck, what))


def make_grid_cases():
    out = []
    for lo in (0.0, 1.0, 2.5, -2.0):
        for n in (1, 2, 3, 7, 10, 14, 20, 28, 60, 140, 280):
            for st in (0.05, 0.1, 0.2, 0.25, 0.3, 0.5, 0.7, 1.0, 2.0):
                out.append((lo, round(lo + n * st, 10), st))
    # steps and minima finer than the two decimals the tables are printed with
    for lo in (0.0, 0.125, 6.995, 2.0005):
        for n in (1, 3, 8, 17, 40):
            for st in (0.125, 0.0625, 0.005, 0.001, 0.0125):
                out.append((lo, round(lo + n * st, 10), st))
    return out


def run_shard(shard, ctx):
    acc = Acc()
    kind, a, b, gs = shard
    if kind == 'make_grid':
        from propka.lib import make_grid
        for (lo, hi, st) in make_grid_cases():
            got = list(make_grid(lo, hi, st))
            want = pf.ref_grid(lo, hi, st)
            acc.n += 1
            acc.nontrivial_n += 1
            acc.outcomes['grid-ok' if len(got) == len(want) else 'grid-short'] += 1
            if len(got) != len(want) or any(abs(x - y) > 1e-6 for x, y in zip(got, want)):
                acc.viols.append(Viol(dict(kind='make_grid', grid=[lo, hi, st]), 'grid',
                                      'make_grid/%s' % ('end-point-missing' if len(got) == len(want) - 1 else 'points-differ'),
                                      'make_grid%r: %d points (last %r), expected %d (last %r)' % (
                                          (lo, hi, st), len(got), got[-1] if got else None, len(want), want[-1])))
        return acc
    for grid in gs:
        case = dict(kind=kind, sig=a, pkas=b, grid=list(grid)) if kind == 'lattice' else dict(kind='real', inp=a, grid=list(grid))
        run_case(case, ctx, acc)
    return acc


def run_case(case, ctx, acc):
    if case['kind'] == 'make_grid':
        from propka.lib import make_grid
        lo, hi, st = case['grid']
        got, want = list(make_grid(lo, hi, st)), pf.ref_grid(lo, hi, st)
        acc.n += 1
        if len(got) != len(want) or any(abs(x - y) > 1e-6 for x, y in zip(got, want)):
            acc.viols.append(Viol(case, 'grid', 'make_grid/%s' % ('end-point-missing' if len(got) == len(want) - 1 else 'points-differ'),
                                  'make_grid%r: %d points expected %d' % ((lo, hi, st), len(got), len(want))))
        return
    grid = tuple(case['grid'])
    if case['kind'] == 'lattice':
        text = gen.to_text(pf.container(case['sig'], ctx.seed))

        def factory(opts):
            m = pk.run(text, opts)
            pf.set_pkas(m, case['pkas'])
            return m
    else:
        from . import c09
        text = c09.real_text(case['inp'], ctx.seed)

        def factory(opts):
            return pk.run(text, tuple(opts) + (('--keep-protons',) if case['inp'][0] == 'kmodels' else ()))
    wins = windows(ctx.tier, grid)
    if case['kind'] == 'real':
        wins = wins[:2]
    oracle(factory, case, acc, grid, wins)
    if case['kind'] == 'lattice' and len(case['pkas']) >= 1:
        # the same container queried again after its pKa values were changed through the API: every profile follows the current values
        m = factory(())
        m.get_charge_profile(conformation='AVR', grid=grid)
        m.get_folding_profile(conformation='AVR', grid=grid)
        m.get_pi()
        pf.set_pkas(m, [v + 1.5 for v in case['pkas']][::-1] if len(set(case['sig'])) == 1 else [v - 2.0 for v in case['pkas']])
        oracle(factory, dict(case, second_query='after-api-edit'), acc, grid, [], api_mol=m)
        acc.n += 1
    if case['kind'] == 'real':      # the same relations for every single conformation (API level)
        m = factory(())
        from . import c09
        for cname in m.conformation_names:
            oracle(factory, dict(case, conformation=cname), acc, grid, [], api_mol=m, cname=cname)
            acc.n += 1
            # the file written for this conformation carries this conformation's two profiles
            p = pk.parse_pka(c09.conf_text(m, cname))
            g0 = tuple(m.options.grid)
            cp = dict((round(r[0], 2), r) for r in m.get_charge_profile(conformation=cname, grid=g0))
            fp = dict((round(a, 2), d) for a, d in m.get_folding_profile(conformation=cname, grid=g0)[0])
            for ph, qu, qf in p['charge']:
                r = cp.get(round(ph, 2))
                if r is not None and (abs(r[1] - qu) > 0.00501 or abs(r[2] - qf) > 0.00501):
                    acc.viols.append(Viol(dict(case, conformation=cname), 'linkage', 'written-charge-table-of-other-conformation',
                                          '%s pH %.2f: printed (%.2f, %.2f), charge profile of this conformation (%r, %r)' % (cname, ph, qu, qf, r[1], r[2])))
                    break
            for ph, dg in p['folding']:
                d = fp.get(round(ph, 2))
                if d is not None and abs(d - dg) > 0.00501:
                    acc.viols.append(Viol(dict(case, conformation=cname), 'linkage', 'written-folding-table-of-other-conformation',
                                          '%s pH %.2f: printed %.2f, folding profile of this conformation %r' % (cname, ph, dg, d)))
                    break
    acc.n += 1
    acc.nontrivial.add(jhash(case))
    acc.outcomes['%s/%d' % (case['kind'], len(pf.ref_grid(*grid)))] += 1

"""C19 - hybrid-36 serial decoding over the whole range (exhaustive enumeration of the field language)."""
import itertools
import string

from ..core import Acc, Viol
from .. import pk, gen
import propka.hybrid36 as H

ID = 'C19'
LEVEL = 'exploration'
LEVEL_TEXT = ('Exhaustive enumeration of the hybrid-36 field language: every valid field of width 1-4 (quick) / 1-5 '
              '(thorough, all 87.5 million values, i.e. the whole property) is decoded and compared with its rank in '
              'encoding order; every string up to length 3 over a 71-symbol alphabet and up to length 4/5 over a '
              '14-symbol alphabet is classified by a reference recogniser. Thorough covers the finite domain completely.')
LEVEL_NOTE = ('Trusts the 30-line reference recogniser/enumerator in pkmc/checks/c19.py and CPython. Malformed strings '
              'longer than the stated lengths and symbols outside the alphabets are not covered.')
TECHNIQUE = 'exhaustive enumeration of a finite input domain against a reference enumerator (bounded model checking of a pure function)'
ASSUMPTIONS = ['reference: enumeration of the hybrid-36 language in encoding order (base-10 / upper / lower '
               'segments written from the format definition, not from propka.hybrid36)',
               "a leading '-' in front of a letter segment is outside the statement and not judged"]

DIG = string.digits
UP = DIG + string.ascii_uppercase
LO = DIG + string.ascii_lowercase
BAD_ALPHABET = list(DIG[:3] + 'AZ' + 'az' + " -+_.*" + '٢')          # width <= 5 (12+ symbols)
FULL_ALPHABET = list(DIG + string.ascii_uppercase + string.ascii_lowercase + " -+_.*,/" + '٢')


def plan(tier, seed):
    shards = []
    widths = (1, 2, 3, 4) if tier == 'quick' else (1, 2, 3, 4, 5)
    for w in widths:
        shards.append(('dec', w, None))
        for seg in ('upper', 'lower'):
            for first in range(26):
                shards.append((seg, w, first))
    # malformed strings: every string of length <= 3 over the full alphabet (sharded by first
    # symbol) and of length <= 5 (quick: 4) over the small alphabet
    for a in FULL_ALPHABET:
        shards.append(('bad-full', 3, a))
    for a in BAD_ALPHABET:
        shards.append(('bad-small', 4 if tier == 'quick' else 5, a))
    shards.append(('bad-empty', 0, None))
    shards.append(('serial-noeffect', 0, None))
    rule = ('every integer of every hybrid-36 field of width w is produced in encoding order by enumerating the '
            'language (decimal, then [A-Z][0-9A-Z]^(w-1), then [a-z][0-9a-z]^(w-1)); decode(field) must equal its '
            'rank-derived value, raw, left-padded and right-padded; every string up to the stated length over the '
            'stated alphabets must raise ValueError unless it is in the language; serial numbers: 15+ renumbering schemes (hybrid-36, descending, duplicate, negative, holes at residue boundaries, steps, restart per model ...) on peptides, a ligand site, alt-loc and multi-model inputs incl. ions and ligands present in several conformations; malformed serial fields; dipeptides with kept hydrogens numbered from every start in -25..5 and 99990; non-trivial = distinct valid '
            'field values plus distinct malformed strings (all enumerated strings are distinct)')
    return dict(shards=shards, rule=rule, exhaustive=True,
                bounds=dict(widths=list(widths), malformed_full_alphabet_len=3,
                            malformed_small_alphabet_len=4 if tier == 'quick' else 5,
                            full_alphabet=''.join(FULL_ALPHABET), small_alphabet=''.join(BAD_ALPHABET)),
                samples=[dict(field='A0000', expect=100000), dict(field='zzzzz', expect=87440031),
                         dict(field=' -999', expect=-999), dict(field='1_0', expect='ValueError')])


def ref_value(s):
    """Reference decoder for the language; returns int, 'error', or None (not judged)."""
    t = s.strip(' ')
    if t != s.strip():
        return None
    neg = t.startswith('-')
    if neg:
        t = t[1:]
    if not t:
        return 'error'
    n = len(t)
    if all(c in DIG for c in t):
        v = 0
        for c in t:
            v = v * 10 + DIG.index(c)
        return -v if neg else v
    if t[0] in string.ascii_uppercase and all(c in UP for c in t):
        if neg:
            return None
        v = 0
        for c in t:
            v = v * 36 + UP.index(c)
        return v - 10 * 36 ** (n - 1) + 10 ** n
    if t[0] in string.ascii_lowercase and all(c in LO for c in t):
        if neg:
            return None
        v = 0
        for c in t:
            v = v * 36 + LO.index(c)
        return v + 16 * 36 ** (n - 1) + 10 ** n
    return 'error'


def dec(s):
    try:
        return H.decode(s)
    except ValueError:
        return 'error'


def run_shard(shard, ctx):
    acc = Acc()
    kind, w, first = shard
    if kind == 'dec':
        lo, hi = -(10 ** (w - 1)) + 1, 10 ** w - 1
        prev = None
        for v in range(lo, hi + 1):
            s = '%d' % v
            for f in (s, s.rjust(w), s.rjust(w + 1), s.ljust(w), ' ' + s + ' '):
                got = dec(f)
                if got != v:
                    acc.viols.append(Viol(dict(kind='valid', field=f, expect=v), 'roundtrip',
                                          'roundtrip/decimal', 'decode(%r) = %r, expected %d' % (f, got, v)))
            if prev is not None and not (dec(prev) != 'error' and dec(s) != 'error' and dec(prev) < dec(s)):
                acc.viols.append(Viol(dict(kind='mono', a=prev, b=s, ck='monotone/decimal'), 'monotone', 'monotone/decimal',
                                      'decode not increasing from %r to %r' % (prev, s)))
            prev = s
            acc.n += 1
        acc.nontrivial_n = hi - lo + 1
        acc.outcomes['decimal-ok'] += acc.n
    elif kind in ('upper', 'lower'):
        alpha = UP if kind == 'upper' else LO
        letters = string.ascii_uppercase if kind == 'upper' else string.ascii_lowercase
        base = 10 ** w + (0 if kind == 'upper' else 26 * 36 ** (w - 1))
        rank = first * 36 ** (w - 1)
        f0 = letters[first]
        decode = H.decode
        prevv = None
        psave = None
        bad = 0
        for tail in itertools.product(alpha, repeat=w - 1):
            s = f0 + ''.join(tail)
            v = base + rank
            try:
                g1 = decode(s)
                g2 = decode(' ' + s)
                g3 = decode(s + ' ')
            except ValueError:
                g1 = g2 = g3 = 'error'
            if g1 != v or g2 != v or g3 != v:
                bad += 1
                if bad <= 3:
                    acc.viols.append(Viol(dict(kind='valid', field=s, expect=v), 'roundtrip',
                                          'roundtrip/%s/width%d' % (kind, w),
                                          'decode(%r) = %r/%r/%r, expected %d' % (s, g1, g2, g3, v)))
            elif prevv is not None and not prevv < g1:
                acc.viols.append(Viol(dict(kind='mono', a=psave, b=s, ck='monotone/%s' % kind), 'monotone', 'monotone/%s' % kind,
                                      'decode not increasing at %r' % s))
            prevv = g1 if g1 != 'error' else prevv
            psave = s
            rank += 1
            acc.n += 1
        # segment boundaries: last of previous block < first of this block
        s_first = f0 + alpha[0] * (w - 1)
        if first > 0:
            s_prev = letters[first - 1] + alpha[-1] * (w - 1)
        elif kind == 'upper':
            s_prev = '9' * w
        else:
            s_prev = 'Z' * w
        a, b = dec(s_prev), dec(s_first)
        if a == 'error' or b == 'error' or not a + 1 == b:
            acc.viols.append(Viol(dict(kind='mono', a=s_prev, b=s_first, ck='monotone/boundary/%s' % kind), 'monotone',
                                  'monotone/boundary/%s' % kind,
                                  'decode(%r)=%r then decode(%r)=%r' % (s_prev, a, s_first, b)))
        acc.nontrivial_n = acc.n
        acc.outcomes['%s-ok' % kind] += acc.n - bad
        if bad:
            acc.outcomes['%s-bad' % kind] += bad
    elif kind in ('bad-full', 'bad-small'):
        alpha = FULL_ALPHABET if kind == 'bad-full' else BAD_ALPHABET
        for ln in range(1, w + 1):
            for tail in itertools.product(alpha, repeat=ln - 1):
                s = first + ''.join(tail)
                judge(s, acc)
    elif kind == 'bad-empty':
        for s in ('', ' ', '     ', '-', ' - ', '  -'):
            judge(s, acc)
    elif kind == 'serial-noeffect':
        serial_noeffect(acc)
        serial_malformed(acc)
        serial_with_hydrogens(acc)
    return acc


def judge(s, acc):
    exp = ref_value(s)
    acc.n += 1
    if exp is None:
        acc.extra['not_judged'] += 1
        return
    got = dec(s)
    acc.nontrivial_n += 1
    acc.outcomes['malformed-rejected' if got == 'error' else 'valid-accepted'] += 1
    if got != exp:
        if exp == 'error':
            t = s.strip().lstrip('-')
            branch = 'decimal' if t[:1] in DIG else 'upper' if t[:1].isupper() else 'lower' if t[:1].islower() else 'other'
            ck = 'malformed-accepted/%s-branch' % branch
        else:
            ck = 'valid-misdecoded'
        acc.viols.append(Viol(dict(kind='string', field=s), 'language', ck,
                              'decode(%r) = %r, expected %r' % (s, got, exp)))


def serial_noeffect(acc):
    """Atom serial numbers never influence predictions (full pipeline, literal files)."""
    from .. import corpus
    for which, base in (('peptide', gen.library().window('3SGB', 'I', 26, 5)),
                        ('ligand-site', corpus.build(corpus.cutout_desc('4DFR', 'B', 26, 8.0))),
                        ('c-terminus', corpus.build(corpus.window_desc('3SGB', 'I', 46, 5))),
                        # multi-conformation inputs: atoms are copied between conformations
                        ('alt-loc', _c08(dict(kind='alt', layout=[('A', 'ASP'), ('B', 'ASPs')], lys=[('B', 'LYSs'), ('C', 'LYS')]))),
                        ('models', _c08(dict(kind='model', layout=[(1, 'ASP'), (2, 'ASPnoCG'), (3, 'absent')])))):
        serial_noeffect_on(acc, which, base)
    # hetero groups (ion, ligand) present in several models / with alternate locations: numbering that runs on through the
    # models, restarts in each, or is the same for all atoms
    for which, (ka, kb, dist) in (('models-with-ion', ('CA', 'GLU', 2.6)), ('models-with-ligand', ('ACT', 'LYS', 2.8))):
        one = gen.pair(ka, kb, dist, level='exposed')
        two = one.copy()
        for a in two.atoms:
            if a.rec == 'HETATM':
                a.x, a.y, a.z = a.x + 300, a.y - 200, a.z + 100
        base = gen.S(['MODEL        1\n'] + one.items + ['ENDMDL\n', 'MODEL        2\n'] + two.items + ['ENDMDL\n']).renumber_serials()
        serial_noeffect_on(acc, which, base, per_model=len(one.atoms))
        alt = []
        for it in one.items:
            if not isinstance(it, str) and it.rec == 'HETATM':
                b = it.clone()
                b.x, b.y, b.z = b.x + 300, b.y - 200, b.z + 100
                it = it.clone()
                it.alt, b.alt = 'A', 'B'
                alt += [it, b]
            else:
                alt.append(it)
        serial_noeffect_on(acc, which.replace('models', 'alt-loc'), gen.S(alt).renumber_serials())


MALFORMED_SERIALS = ('*****', ' ****', '**   ', '  *  ', '12*45', 'Ab123', 'aB123', '     ', '+1234', '1 234', 'A_000', '0x1F ', '1e3  ', '#####', '-----', 'A-123')


def serial_malformed(acc):
    """A malformed serial field is rejected with ValueError wherever the file is read (not only by decode() called directly)."""
    base = gen.library().window('3SGB', 'I', 26, 3)
    for field in MALFORMED_SERIALS:
        for where in (0, len(base.atoms) // 2, len(base.atoms) - 1):
            atoms = base.copy()
            atoms.atoms[where].serial = field
            acc.n += 1
            acc.nontrivial_n += 1
            try:
                pk.run(gen.to_text(atoms))
                got = None
            except ValueError:
                got = 'ValueError'
            except Exception as exc:    # noqa: BLE001
                got = type(exc).__name__
            acc.outcomes['malformed-serial:%s' % got] += 1
            if got != 'ValueError':
                acc.viols.append(Viol(dict(kind='serial-malformed', field=field, where=where), 'serial-noeffect', 'malformed-serial-accepted-by-reader/%s' % (
                    'asterisks' if set(field.strip()) == {'*'} else 'other'), 'serial field %r: %s' % (field, got or 'accepted'), inputs=dict(pdb=gen.to_text(atoms))))


def serial_with_hydrogens(acc):
    """Structures that carry hydrogens, run with --keep-protons --protonate-all (kept hydrogens stay bonded but are not renumbered
    with the heavy atoms): every start value of the numbering gives the same result."""
    from . import c01, c07
    from .. import cmp
    bases = []
    lib = gen.library()
    for rtype, where in (('GLU', ('3SGB', 'I', 12)), ('GLU', ('1FTJ', 'A', 26)), ('ASP', None), ('LYS', None)):
        # a dipeptide X-GLY cut from a real chain, with every hydrogen the program can build (--protonate-all) written back; the two
        # glutamates are the most compact ones of the library (amino N within 2.9 / 3.8 A of the carboxylate, four bonds away)
        if where:
            key, ch, i = where
        else:
            for key, ch in (('3SGB', 'E'), ('1HPX', 'A'), ('1FTJ', 'A')):
                try:
                    i = lib.find(key, ch, rtype, 0)
                    break
                except IndexError:
                    continue
        res = lib.protein_residues(key, ch)
        first = [a.clone() for a in res[i][1]]
        second = c01.add_oxt([a.clone() for a in res[i + 1][1] if a.name in gen.BACKBONE])
        for a in second:
            a.resname = 'GLY'
        for a in first + second:
            a.chain, a.alt, a.icode = 'A', ' ', ' '
        s0 = gen.S(first + second)
        for full in (True, False):
            fed = c07.hydrogens_fed_back(s0, pk.run(gen.to_text(s0), ('--protonate-all',) if full else ()))
            if fed is not None:
                bases.append(('%s-GLY/%s%d/%s' % (rtype, key, i, 'all-hydrogens' if full else 'polar-hydrogens'), gen.S(fed)))
    for name, base in bases:
        for opts in (('--keep-protons', '--protonate-all'), ('--keep-protons',)):
            ref = pk.record(pk.run(gen.to_text(base.copy().renumber_serials(1000)), opts))
            for start in list(range(-25, 6)) + [99990, 99995]:
                atoms = base.copy()
                for i, a in enumerate(atoms.atoms):
                    n = start + i
                    a.serial = '%5d' % n if n <= 99999 else 'A%04d' % (n - 100000)
                acc.n += 1
                acc.nontrivial_n += 1
                try:
                    rec = pk.record(pk.run(gen.to_text(atoms), opts))
                except ValueError as exc:
                    acc.viols.append(Viol(dict(kind='serial-h', base=name, start=start, opts=list(opts)), 'serial-noeffect', 'valid-serial-rejected/numbering-from-%s' % (
                        'negative' if start < 0 else 'positive'), 'numbered from %d: %s' % (start, str(exc)[:120]), inputs=dict(pdb=gen.to_text(atoms), opts=list(opts))))
                    break
                diff = cmp.diff_records(ref, rec, tol=0.0)
                acc.outcomes['serial-start-same' if not diff else 'serial-start-diff'] += 1
                if diff:
                    acc.viols.append(Viol(dict(kind='serial-h', base=name, start=start, opts=list(opts)), 'serial-noeffect',
                                          'serial-influences-result/with-kept-hydrogens/' + diff[0][0], 'free %s numbered from %d, options %s: %s' % (
                                              name, start, ' '.join(opts), str(diff[0])[:250]), inputs=dict(pdb=gen.to_text(atoms), opts=list(opts))))
                    break


def _c08(d):
    from . import c08
    return c08.build(d, 0)


def serial_noeffect_on(acc, which, base, per_model=None):
    text0 = gen.to_text(base)
    ref = pk.record(pk.run(text0))
    n = len(base.atoms)
    variants = {
        'hy36-upper': lambda i: 'A%04d' % i, 'hy36-lower': lambda i: 'a%04d' % i,
        'descending': lambda i: '%5d' % (n - i), 'duplicate': lambda i: '%5d' % 7,
        'negative': lambda i: '%5d' % (-i - 1), 'big': lambda i: '%5d' % (99999 - i),
        'hy36-max': lambda i: 'zzzz' + LO[i % 36], 'zero': lambda i: '    0',
        'left-just': lambda i: ('%d' % (i + 1)).ljust(5), 'hetero-descending': lambda i: '%5d' % (i + 1),
        'interleaved': lambda i: '%5d' % ((i * 7919) % 9973),
        'step-2': lambda i: '%5d' % (2 * i + 1), 'step-3': lambda i: '%5d' % (3 * i + 1), 'step-10': lambda i: '%5d' % (10 * i),
    }
    if per_model:
        variants['restart-in-each-model'] = lambda i: '%5d' % (i % per_model + 1)
        variants['second-model-shifted-by-one'] = lambda i: '%5d' % (i % per_model + 1 + i // per_model)
    # one (two, five) numbers left out at every residue boundary, as after deleted TER records or removed atoms
    bounds_, last = [], None
    for i, a in enumerate(base.atoms):
        if last is not None and a.reskey != last:
            bounds_.append(i)
        last = a.reskey
    for hole in (1, 2, 5):
        variants['hole-%d-at-residue-boundaries' % hole] = (lambda hole: lambda i: '%5d' % (i + 1 + hole * sum(1 for b in bounds_ if b <= i)))(hole)
    for b in bounds_[:6]:      # a single hole at one boundary
        variants['one-hole-before-atom-%d' % b] = (lambda b: lambda i: '%5d' % (i + 1 + (1 if i >= b else 0)))(b)
    for name, f in variants.items():
        atoms = base.copy()
        for i, a in enumerate(atoms.atoms):
            a.serial = f(i)
            if name == 'hetero-descending' and a.rec == 'HETATM':
                a.serial = '%5d' % (n - i)
        acc.n += 1
        acc.nontrivial_n += 1
        try:
            rec = pk.record(pk.run(gen.to_text(atoms)))
        except Exception as exc:
            acc.outcomes['serial-rejected'] += 1
            acc.viols.append(Viol(dict(kind='serial', variant=name, which=which), 'serial-noeffect', 'valid-serial-rejected/' + name,
                                  '%s: %s' % (type(exc).__name__, str(exc)[:120]), inputs=dict(pdb=gen.to_text(atoms))))
            continue
        from .. import cmp
        diff = cmp.diff_records(ref, rec, tol=0.0)
        acc.outcomes['serial-same' if not diff else 'serial-diff'] += 1
        if diff:
            acc.viols.append(Viol(dict(kind='serial', variant=name, which=which), 'serial-noeffect',
                                  'serial-influences-result/' + diff[0][0], 'serial variant %s changes %s' % (name, diff[0]),
                                  detail=diff[:5], inputs=dict(pdb=gen.to_text(atoms))))


def run_case(case, ctx, acc):
    """Replay of a single recorded case."""
    k = case.get('kind')
    if k == 'valid':
        got = dec(case['field'])
        acc.n += 1
        if got != case['expect']:
            t = case['field'].strip()
            seg = 'decimal' if t.lstrip('-')[:1] in DIG else ('upper' if t[:1].isupper() else 'lower')
            ck = 'roundtrip/decimal' if seg == 'decimal' else 'roundtrip/%s/width%d' % (seg, len(t))
            acc.viols.append(Viol(case, 'roundtrip', ck, 'decode(%r) = %r' % (case['field'], got)))
    elif k == 'string':
        judge(case['field'], acc)
        for v in acc.viols:
            v['case'] = case
    elif k == 'mono':
        a, b = dec(case['a']), dec(case['b'])
        acc.n += 1
        bad = a == 'error' or b == 'error' or not a < b
        if 'boundary' in case['ck'] and not bad:
            bad = a + 1 != b
        if bad:
            acc.viols.append(Viol(case, 'monotone', case['ck'], '%r %r' % (a, b)))
    elif k == 'serial-h':
        sub = Acc()
        serial_with_hydrogens(sub)
        acc.n += sub.n
        acc.viols.extend(v for v in sub.viols if v['case'] == case)
    elif k == 'serial-malformed':
        sub = Acc()
        serial_malformed(sub)
        acc.n += sub.n
        acc.viols.extend(v for v in sub.viols if v['case'] == case)
    elif k == 'serial':
        sub = Acc()
        serial_noeffect(sub)
        acc.n += sub.n
        acc.viols.extend(v for v in sub.viols if v['case'] == case)

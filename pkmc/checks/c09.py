"""C09 - charge curves and isoelectric points follow Henderson-Hasselbalch."""
import itertools
import math
import os

from ..core import Acc, Viol, jhash
from .. import pk, gen, profiles as pf

ID = 'C09'
LEVEL = 'exploration'
LEVEL_TEXT = ('Exhaustive enumeration of (group multiset x pKa assignment from an 8-value lattice x pH grid x pI window x '
              'precision): real containers are built by the real pipeline from isolated groups, their predicted pKa values '
              'are overwritten from the lattice, and get_charge_profile / get_pi / the written charge table and pI line '
              'are compared with an independent Henderson-Hasselbalch evaluation from the group records; the same '
              'oracles run on unmodified full-pipeline results (4 proteins, docked pairs with ligands and ions).')
LEVEL_NOTE = ('Reference: pkmc/profiles.py (stable evaluation of 10^x/(1+10^x)). pKa values outside [-3,17], more than 3 '
              '(quick) / 4 (thorough) groups in the lattice scope and pH outside [-5,20] are not enumerated.')
TECHNIQUE = 'exhaustive enumeration of a finite lattice of states of the real container objects against a closed-form reference'
ASSUMPTIONS = ['overwriting Group.pka_value of the AVR groups is a faithful way to reach arbitrary predicted values']

GRIDS = ((0.0, 14.0, 1.0), (0.125, 13.875, 0.25), (0.0, 14.0, 0.1), (-2.0, 16.0, 0.5), (3.0, 9.0, 0.25), (6.995, 7.05, 0.005), (1.0, 1.01, 0.001))
PI_WINDOWS = ((0.0, 14.0), (2.0, 12.0), (-5.0, 20.0))
PRECISIONS = (1e-4, 1e-2, 2.5e-3, 4e-5, 2e-4, 0.3, 1e-7)   # the stated precision need not be a power of ten
REAL_INPUTS = [('file', '3SGB'), ('file', '1HPX'), ('file', '4DFR'), ('file', '1FTJ'),
               ('pair', 'ASP', 'LYS', 2.8, 'mid'), ('pair', 'ACT', 'MAM', 2.9, 'exposed'), ('pair', 'CA', 'GLU', 2.6, 'mid'),
               ('pair', 'PYR', 'GLU', 2.8, 'deep'), ('pair', 'MPO', 'ARG', 3.0, 'exposed'), ('pair', 'MSH', 'HIS', 3.2, 'exposed'),
               ('pair', 'CYS', 'CYS', 2.03, 'exposed'), ('pair', 'CL', 'LYS', 3.0, 'mid'), ('pair', 'N+', 'C-', 3.0, 'exposed'),
               # groups whose model pKa comes from the per-residue custom table (pseudo-nucleotides, see C01)
               ('dna', 'DA', 'N1'), ('dna', 'DG', 'N7'), ('dna', 'DT', 'N3'), ('dna', 'DC', 'N3'),
               # groups that print the same label: two copies of a ligand in one chain, residues differing in insertion code only
               ('twocopies', 'ACT', 'LYS'), ('twocopies', 'MAM', 'GLU'), ('twins', 'GLU', 'GLU'), ('twins', 'LYS', 'LYS'),
               # several conformations with different charge curves (every conformation and the average are judged, each with the
               # file the program writes for it); a chain that one model lacks; all hydrogens supplied and kept
               ('c08', dict(kind='alt', layout=[('A', 'ASP'), ('B', 'ASPs')])), ('c08', dict(kind='alt', layout=[('A', 'ASP'), ('B', 'ALA')])),
               ('c08', dict(kind='alt', layout=[('A', 'ALA'), ('B', 'ASP'), ('C', 'ASPs')], lys=[('B', 'LYSs'), ('C', 'LYS')])),
               ('c08', dict(kind='model', layout=[(1, 'ASP'), (2, 'ASPnoCG'), (3, 'absent')])),
               ('c08', dict(kind='bridge', how='alt', layout=[('A', 'bonded'), ('B', 'free')])),
               ('kmodels', 'first-lacks-B'), ('kmodels', 'second-lacks-B'), ('kmodels', 'both'),
               # covalently coupled groups (N-terminal Asp / Cys, phosphate) under the parameter toggles that act on them
               ('cfgwin', ['3SGB', 'I', 0, 8], 'common_charge_centre 1'), ('cfgwin', ['1HPX', 'A', 66, 8], 'common_charge_centre 1'),
               ('cfgwin', ['3SGB', 'I', 0, 8], 'common_charge_centre 1\nshared_determinants 1'), ('cfgwin', ['3SGB', 'I', 0, 8], 'remove_penalised_group 0'),
               ('cfglig', 'MPO', 'common_charge_centre 1'), ('cfglig', 'MPO', 'remove_penalised_group 0'),
               # parameter files whose output order omits or repeats residue types (what is printed is not what carries charge)
               ('cfgwin', ['1HPX', 'A', 40, 12], '-write_out_order TYR LYS'), ('cfgwin', ['1HPX', 'A', 40, 12], '+write_out_order ASP GLU'),
               ('cfgwin', ['3SGB', 'E', 30, 14], '-write_out_order HIS ARG N+ C-'), ('cfglig', 'ACT', '-write_out_order OCO LYS')]
# option sets for the written file of real inputs (the pI line must agree with the API on any grid)
TEXT_OPTS = ((), ('-g', '0', '14', '2'), ('-g', '0', '14', '3'), ('-g', '1', '13', '1'), ('-g', '0.5', '13.5', '2.5'))


def sigs(tier):
    letters = 'AB' if tier == 'quick' else 'ABYH'
    out = ['']
    for k in range(1, (3 if tier == 'quick' else 4) + 1):
        out += [''.join(c) for c in itertools.combinations_with_replacement(letters, k)]
    return out


def assignments(sig, tier):
    lat = pf.PKA_LATTICE
    if len(sig) == 4:
        lat = (0.0, 3.8, 7.0, 10.5, 14.0)
    out = []
    for vals in itertools.product(lat, repeat=len(sig)):
        ok = True   # identical letters are interchangeable: keep sorted assignments only
        for i in range(1, len(sig)):
            if sig[i] == sig[i - 1] and vals[i] < vals[i - 1]:
                ok = False
        if ok:
            out.append(vals)
    return out


SEQUENCES = [(('pair', 'ASP', 'LYS', 2.8, 'mid'), ('pair', 'PYR', 'GLU', 2.8, 'deep')), (('pair', 'N+', 'C-', 3.0, 'exposed'), ('file', '3SGB')),
             (('pair', 'CA', 'GLU', 2.6, 'mid'), ('pair', 'ACT', 'MAM', 2.9, 'exposed')), (('dna', 'DA', 'N1'), ('pair', 'CYS', 'CYS', 2.03, 'exposed')),
             (('file', '1HPX'), ('pair', 'MSH', 'HIS', 3.2, 'exposed'))]


def plan(tier, seed):
    shards = []
    for sig in sigs(tier):
        asg = assignments(sig, tier)
        size = 64
        for i in range(0, len(asg), size):
            shards.append(('lattice', sig, asg[i:i + size]))
    for inp in REAL_INPUTS:
        if tier == 'quick' and inp[0] == 'file' and inp[1] in ('4DFR', '1FTJ'):
            continue
        shards.append(('real', list(inp), None))
    for a, b in SEQUENCES:
        shards.append(('sequence', [list(a), list(b)], None))
    return dict(shards=shards, exhaustive=True,
                rule=('group multisets over letters %s (A=ASP acid, B=LYS base, Y=TYR, H=HIS) of size <= %d incl. the empty '
                      'set; predicted pKa of every group from {-3,0,3.8,6.5,7,10.5,14,17} (sorted within equal letters); '
                      'grids %s; pI windows %s x precisions %s; one .pka file written and parsed per assignment. '
                      'real inputs (windows, ligand and ion sites, multi-conformation layouts, nucleotides with custom model pKa, parameter-file variants) through the same oracle per conformation and for the average. non-trivial = distinct (multiset, assignment) with at least one group') % (
                          'AB' if tier == 'quick' else 'ABYH', 3 if tier == 'quick' else 4, GRIDS, PI_WINDOWS, PRECISIONS),
                bounds=dict(max_groups=3 if tier == 'quick' else 4, lattice=list(pf.PKA_LATTICE)),
                samples=[dict(sig='AB', pkas=[3.8, 10.5], grid=[0, 14, 1])])


def conf_text(mol, cname):
    """The .pka text the program writes for one conformation (propka.output.write_pka with its conformation argument)."""
    import propka.output
    path = os.path.abspath('conf_%s.pka' % cname)
    propka.output.write_pka(mol, mol.version.parameters, filename=path, conformation=cname, verbose=False)
    with open(path) as fh:
        text = fh.read()
    os.unlink(path)
    return text


def oracle(mol, case, acc, text=None, lattice=True, cname='AVR'):
    """All C09 oracles on the current state of one conformation of mol (the reported average by default)."""
    v = []
    conf = mol.conformations[cname]
    tri = pf.triples(mol, cname)
    params = mol.version.parameters
    # per-group curve
    for g in pf.titratable(mol, cname):
        c = g.charge
        for state, pk_ in (('folded', g.pka_value), ('unfolded', g.model_pka)):
            prev = None
            for ph in [x * 0.5 for x in range(-10, 41)] + [pk_]:
                q = g.calculate_charge(params, ph=ph, state=state)
                if not (-1e-12 <= q / c <= 1 + 1e-12):
                    v.append(('group-charge-out-of-range/%s' % ('acid' if c < 0 else 'base'), '%s q(%s)=%r' % (g.label, ph, q)))
                if abs(q - pf.ref_charge(c, pk_, ph)) > 1e-9:
                    v.append(('group-charge-wrong/%s/%s' % ('acid' if c < 0 else 'base', state), '%s q(%s)=%r ref %r' % (
                        g.label, ph, q, pf.ref_charge(c, pk_, ph))))
                if ph != pk_:
                    if prev is not None and q > prev + 1e-12:
                        v.append(('group-charge-increases', '%s at pH %s' % (g.label, ph)))
                    prev = q
            q = g.calculate_charge(params, ph=pk_, state=state)
            if abs(q - c / 2.0) > 1e-9:
                v.append(('group-half-charge', '%s q(pKa)=%r charge %r' % (g.label, q, c)))
    # profiles
    for grid in (GRIDS if lattice else GRIDS[:2]):
        prof = mol.get_charge_profile(conformation=cname, grid=grid)
        for row in prof:
            ph, qu, qf = row
            ru, rf = pf.ref_totals(tri, ph)
            if abs(qu - ru) > 1e-9 or abs(qf - rf) > 1e-9:
                sw = abs(qu - rf) < 1e-9 and abs(qf - ru) < 1e-9 and abs(ru - rf) > 1e-6
                v.append(('charge-profile-%s' % ('columns-swapped' if sw else 'not-sum-of-groups'),
                          'pH %s: (unfolded,folded)=(%r,%r) reference (%r,%r)' % (ph, qu, qf, ru, rf)))
                break
    # pI: the fixed windows plus windows that bracket the root of exactly one of the two curves
    wins = list(PI_WINDOWS)
    roots = []
    for col in (0, 1):
        lo, hi = -5.0, 20.0
        if pf.ref_totals(tri, lo)[col] > 1e-9 and pf.ref_totals(tri, hi)[col] < -1e-9:
            for _ in range(60):
                mid = 0.5 * (lo + hi)
                if pf.ref_totals(tri, mid)[col] > 0:
                    lo = mid
                else:
                    hi = mid
            roots.append(0.5 * (lo + hi))
    for r in roots:
        for w in ((r - 0.26, r + 0.25), (r - 1.0, r + 0.5)):
            if sum(1 for x in roots if w[0] < x < w[1]) == 1 and len(roots) == 2 and abs(roots[0] - roots[1]) > 1e-3:
                wins.append((round(w[0], 3), round(w[1], 3)))
    for win in wins:
        for prec in PRECISIONS:
            pif, piu = mol.get_pi(conformation=cname, grid=win, precision=prec)
            for which, pi, col in (('folded', pif, 1), ('unfolded', piu, 0)):
                qlo, qhi = pf.ref_totals(tri, win[0])[col], pf.ref_totals(tri, win[1])[col]
                if qlo > 1e-9 and qhi < -1e-9 and pi is None:
                    v.append(('pi-missing-although-sign-change/%s' % which, 'pI(%s) is None for window %s' % (which, win)))
                    continue
                if pi is None:
                    continue
                if qlo > 1e-9 and qhi < -1e-9:
                    a = pf.ref_totals(tri, pi - prec)[col]
                    b = pf.ref_totals(tri, pi + prec)[col]
                    if not (a >= -1e-12 and b <= 1e-12):
                        other = pf.ref_totals(tri, pi - prec)[1 - col] >= -1e-12 and pf.ref_totals(tri, pi + prec)[1 - col] <= 1e-12
                        v.append(('pi-not-a-root/%s%s' % (which, '/is-root-of-other-curve' if other else ''),
                                  'pI(%s)=%r window %s precision %g: Q(pI-e)=%r Q(pI+e)=%r' % (which, pi, win, prec, a, b)))
                    acc.extra['pi_sign_change_cases'] += 1
    # written file
    if text is not None:
        p = pk.parse_pka(text)
        grid = mol.options.grid
        pts = pf.ref_grid(*grid)
        if len(p['charge']) == len(pts):
            for (ph, qu, qf), x in zip(p['charge'], pts):
                ru, rf = pf.ref_totals(tri, x)
                if abs(ph - x) > 0.00501 or abs(qu - ru) > 0.00501 or abs(qf - rf) > 0.00501:
                    sw = abs(qu - rf) <= 0.00501 and abs(qf - ru) <= 0.00501 and abs(ru - rf) > 0.02
                    v.append(('charge-table-%s' % ('columns-swapped' if sw else 'differs'),
                              'row pH %.2f: printed (%.2f, %.2f) reference (%.4f, %.4f)' % (ph, qu, qf, ru, rf)))
                    break
        else:
            acc.extra['charge_table_rowcount_differs(C10)'] += 1
        if p['pi'] is None:
            v.append(('pi-line-missing', 'no pI line'))
        else:
            pif, piu = mol.get_pi(conformation=cname)
            if pif is None or piu is None:
                v.append(('pi-line-differs', 'printed %s API (%r, %r)' % (p['pi'], pif, piu)))
            elif abs(p['pi'][0] - pif) > 0.00501 or abs(p['pi'][1] - piu) > 0.00501:
                sw = abs(p['pi'][0] - piu) <= 0.00501 and abs(pif - piu) > 0.02
                v.append(('pi-line-%s' % ('swapped' if sw else 'differs'), 'printed %s API (%r, %r)' % (p['pi'], pif, piu)))
    seen = set()
    for ck, what in v:
        if ck not in seen:
            seen.add(ck)
            acc.viols.append(Viol(case, 'hh', ck, what))


def run_shard(shard, ctx):
    acc = Acc()
    kind, a, b = shard
    if kind == 'lattice':
        mol = pk.run(gen.to_text(pf.container(a, ctx.seed)))
        if len(pf.titratable(mol)) != len(a):
            acc.viols.append(Viol(dict(kind='lattice', sig=a, pkas=[]), 'setup', 'container-groups', 'expected %d titratable groups' % len(a)))
            return acc
        for vals in b:
            case = dict(kind='lattice', sig=a, pkas=list(vals))
            pf.set_pkas(mol, vals)
            text = pk.pka_text(mol)
            oracle(mol, case, acc, text=text)
            acc.n += 1
            if a:
                acc.nontrivial_n += 1
            acc.outcomes['%s' % a] += 1
    elif kind == 'sequence':
        run_case(dict(kind='sequence', inps=a), ctx, acc)
    else:
        run_case(dict(kind='real', inp=a), ctx, acc)
    return acc


def cfg_file(edits):
    from . import c02
    path = os.path.abspath('c09_%s.cfg' % jhash(edits))
    if edits[0] in '+-':      # list keyword: '-key A B' drops the lines 'key A', 'key B'; '+key A B' repeats them at the end
        w = edits[1:].split()
        lines = [ln for ln in c02.cfg_variants()[(1, 0, 0)].splitlines(True)
                 if not (edits[0] == '-' and ln.split()[:1] == [w[0]] and ln.split()[1:2] and ln.split()[1] in w[1:])]
        if edits[0] == '+':
            lines += ['%s %s\n' % (w[0], x) for x in w[1:]]
        with open(path, 'w') as fh:
            fh.write(''.join(lines))
        return path
    want = dict(ln.split(None, 1) for ln in edits.split('\n'))
    if not os.path.exists(path):
        lines = []
        for ln in c02.cfg_variants()[(1, 0, 0)].splitlines(True):
            w = ln.split()
            if w and w[0] in want:
                ln = '%s %s\n' % (w[0], want[w[0]])
            lines.append(ln)
        with open(path, 'w') as fh:
            fh.write(''.join(lines))
    return path


def real_mol(inp, seed, opts=()):
    if inp[0] == 'kmodels':
        opts = tuple(opts) + ('--keep-protons',)
    if inp[0] in ('cfgwin', 'cfglig'):
        opts = tuple(opts) + ('-p', cfg_file(inp[2]))
    text = real_text(inp, seed)
    return pk.run(text, opts), text


def real_text(inp, seed):
    if inp[0] == 'file':
        return gen.library().text(inp[1])
    if inp[0] == 'cfgwin':
        from .. import corpus
        return gen.to_text(corpus.build(corpus.window_desc(*inp[1]), seed))
    if inp[0] == 'cfglig':
        return gen.to_text(gen.pair(inp[1], 'LYS', 3.0, level='mid', offset=gen.seed_offset(seed)))
    if inp[0] == 'c08':
        from . import c08
        d = dict(inp[1])
        d['layout'] = [tuple(x) for x in d['layout']]
        if d.get('lys'):
            d['lys'] = [tuple(x) for x in d['lys']]
        return gen.to_text(c08.build(d, seed))
    if inp[0] == 'kmodels':
        # a two-chain peptide with the program's own hydrogens written back, as two MODELs of which one may lack chain B
        from . import c07, c08
        one = c08.build(dict(kind='alt', layout=[(' ', 'ASP')]), seed)
        fed = c07.hydrogens_fed_back(one, pk.run(gen.to_text(one)))
        only_a = [it for it in fed if isinstance(it, str) or it.chain == 'A']
        m = {'first-lacks-B': (only_a, fed), 'second-lacks-B': (fed, only_a), 'both': (fed, fed)}[inp[1]]
        items = []
        for k, part in enumerate(m):
            items += ['MODEL     %4d\n' % (k + 1)] + [i.clone() if not isinstance(i, str) else i for i in part] + ['ENDMDL\n']
        return gen.to_text(items)
    if inp[0] == 'dna':
        from . import c01
        frag = c01.dna_fragment(inp[1], inp[2]).translate((10000, 10000, 10000))
        pep = gen.S(c01.build_window(dict(key='3SGB', chain='I', index=20, oxt=1)))
        return gen.to_text(pep.items + ['TER\n'] + frag.translate((30000, 0, 0)).items)
    if inp[0] == 'twocopies':
        s1 = gen.pair(inp[1], inp[2], 2.9, level='exposed', offset=gen.seed_offset(seed))
        free = gen.kind_struct(inp[1], 'A', 2)
        ext = s1.extent()
        free.translate((ext[0][1] + 30000, (ext[1][0] + ext[1][1]) // 2, (ext[2][0] + ext[2][1]) // 2))
        return gen.to_text(gen.S(s1.items + free.items + ['TER\n']).renumber_serials())
    if inp[0] == 'twins':
        from . import c01
        items = c01.build_stream(dict(start=(5, 'A'), tokens=[('GLY', 'next', 'same', 0, 'none', 'ATOM  '), (inp[1], 'next', 'same', 0, 'none', 'ATOM  '),
                                                             (inp[2], 'twin', 'same', 1, 'none', 'ATOM  ')]), seed)
        return gen.to_text(items)
    return gen.to_text(gen.pair(inp[1], inp[2], inp[3], level=inp[4], offset=gen.seed_offset(seed)))


def run_case(case, ctx, acc):
    if case['kind'] == 'lattice':
        mol = pk.run(gen.to_text(pf.container(case['sig'], ctx.seed)))
        pf.set_pkas(mol, case['pkas'])
        oracle(mol, case, acc, text=pk.pka_text(mol))
        acc.n += 1
    elif case['kind'] == 'sequence':
        # two containers alive at once: every query must describe its own container, in any order of querying
        ma, _ = real_mol(case['inps'][0], ctx.seed)
        mb, _ = real_mol(case['inps'][1], ctx.seed)
        oracle(ma, dict(case, queried='first-after-second-run'), acc, lattice=False)
        oracle(mb, dict(case, queried='second'), acc, lattice=False)
        oracle(ma, dict(case, queried='first-again'), acc, text=pk.pka_text(ma), lattice=False)
        for name in ma.conformation_names:   # a single conformation after the average
            grid = (0.0, 14.0, 1.0)
            prof = ma.get_charge_profile(conformation=name, grid=grid)
            tri = pf.triples(ma, name)
            for ph, qu, qf in prof:
                ru, rf = pf.ref_totals(tri, ph)
                if abs(qu - ru) > 1e-9 or abs(qf - rf) > 1e-9:
                    acc.viols.append(Viol(dict(case, queried='conformation-after-average'), 'hh', 'charge-profile-not-sum-of-groups/conformation',
                                          '%s pH %s: (%r,%r) reference (%r,%r)' % (name, ph, qu, qf, ru, rf)))
                    break
        for v in acc.viols:
            v['case'] = case
        acc.n += 1
        acc.nontrivial.add(jhash(case))
        acc.outcomes['sequence'] += 1
    else:
        mol, text = real_mol(case['inp'], ctx.seed)
        oracle(mol, case, acc, text=pk.pka_text(mol), lattice=False)
        if case['inp'][0] in ('pair', 'file', 'cfgwin'):
            for o in TEXT_OPTS[1:]:
                m2, _ = real_mol(case['inp'], ctx.seed, o)
                p2 = pk.parse_pka(pk.pka_text(m2))
                pif, piu = m2.get_pi()
                acc.n += 1
                if p2['pi'] is not None and pif is not None and piu is not None and (abs(p2['pi'][0] - pif) > 0.00501 or abs(p2['pi'][1] - piu) > 0.00501):
                    acc.viols.append(Viol(dict(case, opts=list(o)), 'hh', 'pi-line-differs/coarse-grid', 'options %s: printed %s, API (%r, %r)' % (' '.join(o), p2['pi'], pif, piu)))
        for cname in mol.conformation_names:     # every single conformation, with the file written for it
            oracle(mol, dict(case, conformation=cname), acc, text=conf_text(mol, cname), lattice=False, cname=cname)
            acc.n += 1
        acc.n += 1
        acc.nontrivial.add(jhash(case))
        acc.outcomes['real'] += 1

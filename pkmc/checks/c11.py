"""C11 - bonds found by the cell list = bonds of the pairwise distance rule, for every placement relative to the grid."""
import itertools
import math

from ..core import Acc, Viol, jhash
from .. import pk, gen
import propka.bonds
from propka.atom import Atom

ID = 'C11'
LEVEL = 'exploration'
LEVEL_TEXT = ('Exhaustive enumeration of two- and three-atom placements relative to the internal cell grid (every '
              'combination of in-cell position, neighbour cell in all 26 directions, negative coordinates, threshold '
              'shells at t+-0.0005/0.01 for every element-pair threshold, both atom orders), plus complete real '
              'structures as dense cases; the real BondMaker.find_bonds_for_atoms_using_boxes is compared with an '
              'O(n^2) loop over the same pair criterion; symmetry, irreflexivity and the disulfide flags are checked '
              'on every case and the bridged-cysteine consequence on full runs.')
LEVEL_NOTE = ('The pair criterion itself (BondMaker.check_distance) is taken as given, as the statement does; the '
              'reference only replaces the spatial hashing by all pairs. Atom sets larger than 3 atoms are covered by '
              'the real structures only.')
TECHNIQUE = 'exhaustive small-scope enumeration of placements against an all-pairs reference (differential model checking of the cell list)'
ASSUMPTIONS = ['coordinates on the 0.001 A grid; box size read from the implementation (2.51 A)',
               'the distance criterion is strict: two atoms at exactly the threshold distance (1.5 / 2.0 / 2.5 A, binary-exact coordinates) are not bonded']

ELEMENTS = ('C', 'N', 'O', 'S', 'H', 'F', 'Fe')
THRESH = (1.5, 1.7, 2.0, 2.5)
DIRS = [d for d in itertools.product((-1, 0, 1), repeat=3) if any(d)]


def mk(el, x, y, z, name=None):
    a = Atom()
    a.element = el
    a.name = name or el.upper()
    a.x, a.y, a.z = x, y, z
    return a


def reference(bm, atoms):
    """All-pairs application of the pair criterion."""
    bonds = set()
    n = len(atoms)
    for i in range(n):
        for j in range(i + 1, n):
            if bm.check_distance(atoms[i], atoms[j]):
                bonds.add((i, j))
    return bonds


def found(atoms):
    idx = {id(a): i for i, a in enumerate(atoms)}
    bonds, problems = set(), []
    for i, a in enumerate(atoms):
        seen = set()
        for b in a.bonded_atoms:
            j = idx[id(b)]
            if j == i:
                problems.append('self-bond')
            if j in seen:
                problems.append('duplicate-bond')
            seen.add(j)
            if not any(x is a for x in b.bonded_atoms):
                problems.append('asymmetric-bond')
            bonds.add((min(i, j), max(i, j)))
    return bonds, problems


def criterion(e1, e2, d):
    """The element-dependent distance criterion as the model defines it today (DESIGN section 2): a hydrogen and a heavy atom
    are bonded below 1.5 A, two heavy atoms below 2.0 A, two sulfurs below 2.5 A, two hydrogens never."""
    nh = (e1 == 'H') + (e2 == 'H')
    if nh == 2:
        return False
    if nh == 1:
        return d < 1.5
    if e1 == 'S' and e2 == 'S':
        return d < 2.5
    return d < 2.0


def judge(bm, spec, acc, case=None):
    """spec = list of (element, x, y, z).  Runs the real cell list and the reference."""
    atoms = [mk(*s) for s in spec]
    bm.find_bonds_for_atoms_using_boxes(atoms)
    got, problems = found(atoms)
    ref_atoms = [mk(*s) for s in spec]
    exp = reference(bm, ref_atoms)
    v = []
    if got != exp:
        miss, extra = exp - got, got - exp
        i, j = sorted(miss or extra)[0]
        box = bm_box(bm)
        dc = tuple(abs(math.floor(spec[i][k + 1] / box) - math.floor(spec[j][k + 1] / box)) for k in range(3))
        neg = any(c < 0 for s in (spec[i], spec[j]) for c in s[1:])
        v.append(('cell-list-differs/%s/celldelta=%d%d%d' % ('missing' if miss else 'extra', *dc),
                  'bonds %s, all-pairs rule gives %s (neg=%s)' % (sorted(got), sorted(exp), neg)))
    for p in set(problems):
        v.append((p, p))
    # the pair criterion itself, stated independently (two-atom cases, away from the thresholds by at least 0.0004 A)
    if len(spec) == 2:
        d = math.sqrt(sum((spec[0][k] - spec[1][k]) ** 2 for k in (1, 2, 3)))
        if all(abs(d - t) > 4e-4 for t in THRESH):
            want = criterion(spec[0][0], spec[1][0], d)
            if bool(exp) != want:
                v.append(('pair-criterion-differs/%s-%s' % tuple(sorted((spec[0][0], spec[1][0]))),
                          '%s-%s at %.4f A: program says %s, criterion says %s' % (spec[0][0], spec[1][0], d, bool(exp), want)))
    # disulfide flags
    for (i, j) in exp:
        if spec[i][0] == 'S' and spec[j][0] == 'S':
            if not (atoms[i].cysteine_bridge and atoms[j].cysteine_bridge):
                v.append(('bridge-flag-missing', 'S-S within bond distance but flags %s %s' % (
                    atoms[i].cysteine_bridge, atoms[j].cysteine_bridge)))
    for i, a in enumerate(atoms):
        if a.cysteine_bridge and not any(spec[i][0] == 'S' and spec[j][0] == 'S' for (p, q) in exp for j in (p, q)
                                         if i in (p, q) and j != i):
            v.append(('bridge-flag-spurious', 'atom %d flagged as bridged without S-S bond' % i))
    for ck, what in v:
        acc.viols.append(Viol(case or dict(kind='atoms', spec=[list(s) for s in spec]), 'cell-list', ck, what))
    return got, exp


def bm_box(bm):
    return max(getattr(propka.bonds, 'BOX_SIZE', 2.5), bm.max_sq_distance ** 0.5 + 0.01)   # only used to place atoms relative to cell faces


def plan(tier, seed):
    shards = []
    inpos = (0.001, 1.255, 2.509)
    cells = list(itertools.product((-1, 0), repeat=3))
    # (a) lattice offsets, sharded by cell x in-cell x position
    for c in cells:
        for px in inpos:
            shards.append(('offsets', c, px))
    # (b) threshold shells
    for c in cells:
        shards.append(('shells', c, None))
    # (c) triples
    for o in range(8):
        shards.append(('triples', o, None))
    # (d) dense real structures
    for key in (['3SGB'] if tier == 'quick' else ['3SGB', '1HPX', '4DFR', '1FTJ']):
        shards.append(('dense', key, None))
    shards.append(('bridge-run', None, None))
    pl = pipeline_cases(tier)
    shards += [('pipeline', pl[i::8], None) for i in range(8)]
    return dict(shards=shards, exhaustive=True,
                rule=('atom 1 on {0.001,1.255,2.509}^3 inside each of the 8 cells around the origin; atom 2 at every '
                      'offset of a cubic lattice (step 0.3 quick / 0.2 thorough, |d|<=2.4) for element pairs C-C, S-S, '
                      'C-H, and on shells |r| = t +- {0.0005, 0.01}, t in {1.5,1.7,2.0,2.5}, in all 26 directions for '
                      'all 49 ordered element pairs over C,N,O,S,H,F,Fe; all 3-subsets of a 3x3x3 lattice (1.3 A) at 8 '
                      'origins straddling cell faces; whole real structures; each in both atom orders; two atoms of every element pair '
                      'on identical coordinates; full pipeline runs (default, -k) of real files and of protein/hetero pairs docked at '
                      'covalent distance (CYS-thiol, carboxylate-ion, His-ion, Lys-ligand; two ions on one site), heavy-atom bonds '
                      'of every conformation against the all-pairs rule. two atoms of every element pair at exactly 1.5 / 2.0 / 2.5 A along each axis on binary-exact coordinates; non-trivial = '
                      'distinct placements whose atoms fall into different cells or lie within 0.05 A of a threshold'),
                bounds=dict(tier=tier, lattice_step=0.3 if tier == 'quick' else 0.2, max_atoms_synthetic=3),
                samples=[dict(spec=[['C', -0.001, 1.0, 1.0], ['C', 0.001, 2.9, 1.0]], note='neighbour cell across x=0')])


def judge_exact(bm, spec, t, acc):
    """Two atoms at exactly the distance t (binary-exact coordinates): cell list == all pairs == the strict criterion."""
    case = dict(kind='exact', spec=[list(x) for x in spec], t=t)
    got, exp = judge(bm, spec, acc, case)
    want = criterion(spec[0][0], spec[1][0], t)
    if bool(exp) != want:
        acc.viols.append(Viol(case, 'cell-list', 'pair-criterion-differs/exactly-at-threshold/%s-%s' % tuple(sorted((spec[0][0], spec[1][0]))),
                              '%s-%s at exactly %.1f A: program says %s, criterion says %s' % (spec[0][0], spec[1][0], t, bool(exp), want)))
    return exp


def run_shard(shard, ctx):
    acc = Acc()
    kind, p1, p2 = shard
    bm = propka.bonds.BondMaker()
    box = bm_box(bm)
    if kind == 'offsets':
        step = 0.3 if ctx.tier == 'quick' else 0.2
        n = int(round(2.4 / step))
        offs = [round(i * step, 3) for i in range(-n, n + 1)]
        inpos = (0.001, 1.255, 2.509)
        pairs = (('C', 'C'), ('S', 'S'), ('C', 'H'))
        for py in inpos:
            for pz in inpos:
                a1 = (round(p1[0] * box + p2, 3), round(p1[1] * box + py, 3), round(p1[2] * box + pz, 3))
                for dx in offs:
                    for dy in offs:
                        for dz in offs:
                            a2 = (round(a1[0] + dx, 3), round(a1[1] + dy, 3), round(a1[2] + dz, 3))
                            if a2 == a1:
                                continue
                            r = math.sqrt(dx * dx + dy * dy + dz * dz)
                            cd = any(math.floor(a1[k] / box) != math.floor(a2[k] / box) for k in range(3))
                            nt = cd or any(abs(r - t) < 0.05 for t in THRESH)
                            for e1, e2 in pairs:
                                for spec in ([(e1,) + a1, (e2,) + a2], [(e2,) + a2, (e1,) + a1]):
                                    got, exp = judge(bm, spec, acc)
                                    acc.n += 1
                                    if nt:
                                        acc.nontrivial_n += 1
                                    acc.outcomes['bond' if exp else 'nobond'] += 1
    elif kind == 'shells':
        inpos = (0.001, 2.509) if ctx.tier == 'quick' else (0.001, 1.255, 2.509)
        radii = [round(t + e, 4) for t in THRESH for e in (-0.01, -0.0005, 0.0005, 0.01)]
        for p in itertools.product(inpos, repeat=3):
            a1 = tuple(round(p1[k] * box + p[k], 3) for k in range(3))
            for d in DIRS:
                ln = math.sqrt(sum(c * c for c in d))
                for r in radii:
                    a2 = tuple(round(a1[k] + d[k] * r / ln, 4) for k in range(3))
                    for e1 in ELEMENTS:
                        for e2 in ELEMENTS:
                            for spec in ([(e1,) + a1, (e2,) + a2], [(e2,) + a2, (e1,) + a1]):
                                got, exp = judge(bm, spec, acc)
                                acc.n += 1
                                acc.nontrivial_n += 1
                                acc.outcomes['%s-%s:%s' % (e1, e2, 'bond' if exp else 'nobond')] += 1
        # exactly at a threshold: binary-exact coordinates (multiples of 1/8), second atom along a coordinate axis, so the squared
        # distance is exact in floating point; the criterion is strict - at exactly 1.5 / 2.0 / 2.5 A there is no bond
        if tuple(p1) == (0, 0, 0):
            for a1 in ((0.0, 0.0, 0.0), (1.125, -2.25, 3.5), (-8.0, 4.375, -0.625), (2.5, 2.5, 2.5)):
                for axis in range(3):
                    for sgn in (1, -1):
                        for t in (1.5, 2.0, 2.5):
                            a2 = tuple(a1[k] + (sgn * t if k == axis else 0.0) for k in range(3))
                            for e1 in ELEMENTS:
                                for e2 in ELEMENTS:
                                    for spec in ([(e1,) + a1, (e2,) + a2], [(e2,) + a2, (e1,) + a1]):
                                        exp = judge_exact(bm, spec, t, acc)
                                        acc.n += 1
                                        acc.nontrivial_n += 1
                                        acc.outcomes['exact-%s-%s:%s' % (e1, e2, 'bond' if exp else 'nobond')] += 1
    elif kind == 'triples':
        o = p1
        origin = tuple((box * ((o >> k) & 1) - box) + (box - 1.3) for k in range(3))   # lattice straddles faces
        pts = [tuple(round(origin[k] + 1.3 * i[k], 3) for k in range(3)) for i in itertools.product(range(3), repeat=3)]
        els = ('C', 'S', 'H')
        for tri in itertools.combinations(range(27), 3):
            for e in (('C', 'C', 'C'), ('S', 'S', 'C'), ('C', 'H', 'S')):
                spec = [(e[k],) + pts[tri[k]] for k in range(3)]
                for sp in (spec, spec[::-1]):
                    got, exp = judge(bm, sp, acc)
                    acc.n += 1
                    acc.nontrivial_n += 1
                    acc.outcomes['nb=%d' % len(exp)] += 1
    elif kind == 'dense':
        lib = gen.library()
        s = lib.structs[p1]
        lines = [a.line() for a in s.atoms if a.alt in (' ', 'A')]
        for variant in ('file-order', 'reversed', 'negative-shift'):
            atoms = [Atom(line=ln) for ln in lines]
            if variant == 'reversed':
                atoms.reverse()
            if variant == 'negative-shift':
                for a in atoms:
                    a.x -= 61.337
                    a.y -= 48.211
                    a.z -= 77.003
            bm.find_bonds_for_atoms_using_boxes(atoms)
            got, problems = found(atoms)
            ref_atoms = [Atom(line=ln) for ln in lines]
            if variant == 'reversed':
                ref_atoms.reverse()
            exp = reference(bm, ref_atoms)
            acc.n += 1
            acc.nontrivial.add('dense/%s/%s' % (p1, variant))
            acc.outcomes['dense nb=%d' % len(exp)] += 1
            acc.extra['dense_pairs_compared'] += len(atoms) * (len(atoms) - 1) // 2
            case = dict(kind='dense', key=p1, variant=variant)
            if got != exp:
                d = sorted((exp - got) | (got - exp))[:3]
                acc.viols.append(Viol(case, 'cell-list', 'cell-list-differs/dense',
                                      '%d bonds differ, e.g. %s' % (len((exp - got) | (got - exp)),
                                                                    [(str(atoms[i]), str(atoms[j])) for i, j in d])))
            for p in set(problems):
                acc.viols.append(Viol(case, 'cell-list', p, p))
            nss = sum(1 for (i, j) in exp if atoms[i].element == 'S' and atoms[j].element == 'S')
            nflag = sum(1 for a in atoms if a.cysteine_bridge)
            if nflag != 2 * nss:
                acc.viols.append(Viol(case, 'bridge', 'bridge-flag-count', '%d S-S bonds, %d flags' % (nss, nflag)))
    elif kind == 'pipeline':
        for case in p1:
            pipeline_run(case, acc)
    elif kind == 'bridge-run':
        # two distinct atoms on identical coordinates are a pair like any other
        for e1, e2 in itertools.product(ELEMENTS, repeat=2):
            for pos in ((0.0, 0.0, 0.0), (1.255, -3.3, 7.001)):
                judge(bm, [(e1,) + pos, (e2,) + pos], acc)
                acc.n += 1
                acc.nontrivial.add('coincident/%s/%s/%s' % (e1, e2, pos))
        for d in (2.0, 2.04, 2.3, 2.499, 2.501, 2.7, 3.2):
            for opts in ((), ('-i', 'A:2,B:12'), ('-i', 'A:2'), ('-d',), ('--protonate-all',), ('custom-model-pka',)):
                bridge_run(dict(kind='bridge-run', d=d, opts=list(opts)), acc)
    return acc


def bridge_run(case, acc):
    """Full pipeline: two cysteines docked SG-SG at distance d."""
    d = case['d']
    s = gen.pair('CYS', 'CYS', d)
    sg = [a for a in s.atoms if a.name == 'SG']
    dist = math.sqrt(sum((getattr(sg[0], c) - getattr(sg[1], c)) ** 2 for c in 'xyz')) / 1000.0
    text = gen.to_text(s)
    opts = tuple(case.get('opts', ()))
    if opts == ('custom-model-pka',):     # a parameter file that gives the cysteine sulfur a model pKa of its own
        import os
        from . import c02
        path = os.path.abspath('c11_custom.cfg')
        with open(path, 'w') as fh:
            fh.write(c02.cfg_variants()[(1, 0, 0)] + '\ncustom_model_pkas CYS-SG 8.30\n')
        opts = ('-p', path)
    mol = pk.run(text, opts)
    acc.n += 1
    acc.nontrivial.add('bridge-run/%s/%s' % (d, ' '.join(opts)))
    groups = [g for g in mol.conformations['1A'].groups if g.type == 'CYS']
    avr = [g for g in mol.conformations['AVR'].groups if g.type == 'CYS']
    expect = dist < 2.5
    acc.outcomes['bridged' if expect else 'free'] += 1
    listed = None
    if '-i' in opts:
        listed = [int(x.split(':')[1]) for x in opts[opts.index('-i') + 1].split(',')]
    ok = len(groups) == 2 and len(avr) == (2 if listed is None else len(listed))
    for g in groups + avr:
        if listed is not None and g.atom.res_num not in listed:
            ok = ok and not g.titratable     # unlisted: never titrated, bridged or not
            continue
        if expect:
            ok = ok and g.atom.cysteine_bridge and not g.titratable and abs(g.pka_value - 99.99) < 1e-9
        else:
            ok = ok and not g.atom.cysteine_bridge and g.titratable and g.pka_value < 50
    if expect:   # a bridged cysteine contributes no charge and no folding energy, whatever the options
        conf = mol.conformations['AVR']
        qu, qf = conf.calculate_charge(mol.version.parameters, ph=14.0)
        ok = ok and abs(qu) < 1e-9 and abs(qf) < 1e-9
        for cname in ('1A', 'AVR'):
            for ref in ('neutral', 'low-pH'):
                prof = mol.get_folding_profile(conformation=cname, reference=ref, grid=(0.0, 14.0, 1.0))[0]
                if any(abs(dg) > 1e-9 for _, dg in prof):
                    acc.viols.append(Viol(case, 'bridge-run', 'bridged-cys-consequence/folding-energy',
                                          'SG-SG %.3f A: folding profile of %s (%s) is not zero: %s' % (dist, cname, ref, [round(dg, 4) for _, dg in prof][-4:]),
                                          inputs=dict(pdb=text)))
                    break
    if not ok:
        acc.viols.append(Viol(case, 'bridge-run', 'bridged-cys-consequence/%s' % ('bridged' if expect else 'free'),
                              'SG-SG %.3f A: groups %s' % (dist, [(g.label, g.titratable, g.pka_value, g.atom.cysteine_bridge)
                                                                  for g in groups + avr]), inputs=dict(pdb=text)))


PIPE_PAIRS = [('CYS', 'MSH', (1.8, 2.04, 2.3, 2.7)), ('ASP', 'CA', (1.7, 1.95, 2.3)), ('HIS', 'ZN', (1.9, 2.1)), ('LYS', 'ACT', (1.5, 1.9, 2.2)),
              ('GLU', 'MAM', (1.45, 2.1)), ('TYR', 'NA', (1.95, 2.4)), ('C-', 'MG', (1.9, 2.05)), ('N+', 'ACT', (1.6,))]


def pipeline_cases(tier):
    out = []
    for key in (('3SGB', '4DFR') if tier == 'quick' else ('3SGB', '1HPX', '4DFR', '1FTJ')):
        for opts in ((), ('-k',)):
            out.append(dict(kind='pipeline', src='file', key=key, opts=list(opts)))
    for a, b, ds in PIPE_PAIRS:
        for d in ds:
            for opts in ((), ('-k',)):
                out.append(dict(kind='pipeline', src='pair', a=a, b=b, d=d, opts=list(opts)))
    # structures that carry all their hydrogens (the program's own, written back), kept with -k: every H-X pair is judged as well
    for a, b in (('ASP', 'LYS'), ('HIS', 'GLU'), ('TYR', 'ARG'), ('CYS', 'CYS'), ('ASN', 'TRP'), ('N+', 'C-')):
        out.append(dict(kind='pipeline', src='fed', a=a, b=b, d=3.0 if a != 'CYS' else 2.04, opts=['-k']))
    for ions in (('ZN', 'FE'), ('CA', 'CA'), ('MG', 'NA')):   # (a ligand atom on top of a protein atom makes ligand typing divide by zero: outside C11)
        out.append(dict(kind='pipeline', src='coincident', ions=list(ions), opts=[]))
    return out


def pipeline_run(case, acc):
    """The bonds the complete program works with (after reading, completion of conformations and protonation), restricted to
    heavy atoms, are those of the all-pairs rule over the heavy atoms of each conformation - whatever record type they have."""
    with_h = False
    if case['src'] == 'file':
        text = gen.library().text(case['key'])
    elif case['src'] == 'fed':
        from . import c07
        s0 = gen.pair(case['a'], case['b'], case['d'])
        fed = c07.hydrogens_fed_back(s0, pk.run(gen.to_text(s0)))
        if fed is None:
            acc.skipped += 1
            return
        text = gen.to_text(fed)
        with_h = True
    elif case['src'] == 'pair':
        text = gen.to_text(gen.pair(case['a'], case['b'], case['d']))
    else:
        k1, k2 = case['ions']
        if k2 == 'CYS':     # a thiol sulfur refined onto the position of a cysteine SG
            s = gen.pair('CYS', k1, 0.0)
        else:
            s = gen.pair('ASP', k1, 2.4)
            first = [a for a in s.atoms if a.rec == 'HETATM'][0]
            twin = gen.ion(k2, 'N', 21)
            for a in twin.atoms:
                a.x, a.y, a.z = first.x, first.y, first.z
            s = gen.S(s.items + twin.items)
            s.renumber_serials()
        text = gen.to_text(s)
    mol = pk.run(text, tuple(case['opts']))
    bm = propka.bonds.BondMaker()
    acc.n += 1
    for name in mol.conformation_names:
        heavy = [a for a in mol.conformations[name].atoms if a.element != 'H' or with_h]
        idx = {id(a): i for i, a in enumerate(heavy)}
        got = set()
        for i, a in enumerate(heavy):
            for b in a.bonded_atoms:
                if id(b) in idx:
                    got.add((min(i, idx[id(b)]), max(i, idx[id(b)])))
                    if b is a:
                        acc.viols.append(Viol(case, 'pipeline', 'self-bond', str(a), inputs=dict(pdb=text)))
        exp = set()
        cell = {}
        for i, a in enumerate(heavy):
            cell.setdefault((math.floor(a.x / 3.0), math.floor(a.y / 3.0), math.floor(a.z / 3.0)), []).append(i)
        for (cx, cy, cz), members in cell.items():       # reference neighbour search with 3 A cells, all 27 neighbours
            for dx, dy, dz in itertools.product((-1, 0, 1), repeat=3):
                for i in members:
                    for j in cell.get((cx + dx, cy + dy, cz + dz), ()):
                        if i < j:
                            a, b = heavy[i], heavy[j]
                            d = math.sqrt((a.x - b.x) ** 2 + (a.y - b.y) ** 2 + (a.z - b.z) ** 2)
                            if d < 2.6 and criterion(a.element, b.element, d):
                                exp.add((i, j))
        mixed = sum(1 for i, j in exp if heavy[i].type != heavy[j].type)
        acc.extra['pipeline_hydrogen_bonds_compared'] += sum(1 for i, j in exp if 'H' in (heavy[i].element, heavy[j].element))
        acc.extra['pipeline_bonds_compared'] += len(exp)
        acc.extra['pipeline_atom_hetatm_bonds'] += mixed
        acc.nontrivial.add(jhash([case, name]))
        acc.outcomes['pipeline mixed-record bonds=%d' % min(mixed, 3)] += 1
        if got != exp:
            diff = sorted((exp - got) | (got - exp))
            i, j = diff[0]
            kind = 'atom-hetatm' if heavy[i].type != heavy[j].type else heavy[i].type
            zero = heavy[i].x == heavy[j].x and heavy[i].y == heavy[j].y and heavy[i].z == heavy[j].z
            acc.viols.append(Viol(case, 'pipeline', 'pipeline-bonds-differ/%s/%s%s' % ('missing' if (i, j) in exp else 'extra', kind,
                                                                                     '/coincident' if zero else ''),
                                  '%s: %d heavy-atom bonds differ from the all-pairs rule, e.g. %s - %s' % (
                                      name, len(diff), heavy[i], heavy[j]), inputs=dict(pdb=text, opts=case['opts'])))
        for i, j in exp:
            if heavy[i].element == 'S' and heavy[j].element == 'S' and not (heavy[i].cysteine_bridge and heavy[j].cysteine_bridge):
                acc.viols.append(Viol(case, 'pipeline', 'bridge-flag-missing/pipeline', '%s - %s' % (heavy[i], heavy[j]), inputs=dict(pdb=text)))
        for g in mol.conformations[name].groups:
            if g.type == 'CYS' and g.atom.cysteine_bridge and (g.titratable or abs(g.pka_value - 99.99) > 1e-9):
                acc.viols.append(Viol(case, 'pipeline', 'bridged-cys-consequence/pipeline', '%s titratable=%s pKa=%s' % (g.label, g.titratable, g.pka_value),
                                      inputs=dict(pdb=text)))


def run_case(case, ctx, acc):
    k = case.get('kind')
    if k == 'pipeline':
        return pipeline_run(case, acc)
    if k == 'atoms':
        bm = propka.bonds.BondMaker()
        acc.n += 1
        judge(bm, [tuple(s) for s in case['spec']], acc, case)
    elif k == 'exact':
        acc.n += 1
        judge_exact(propka.bonds.BondMaker(), [tuple(s) for s in case['spec']], case['t'], acc)
    elif k == 'dense':
        sub = run_shard(('dense', case['key'], None), ctx)
        acc.n += sub.n
        acc.viols.extend(v for v in sub.viols if v['case'] == case)
    elif k == 'bridge-run':
        bridge_run(case, acc)

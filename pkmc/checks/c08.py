"""C08 - the conformation average is the mean over the conformations that contain a group."""
import collections
import itertools
import os

from ..core import Acc, Viol, jhash
from .. import pk, gen, cmp

ID = 'C08'
HORIZON_S = 1800   # one case = one input under all its transformations
LEVEL = 'model_checking'
LEVEL_TEXT = ('Every multi-conformation layout of a bounded alphabet (a peptide whose middle residue takes, per '
              'conformation, one of {ASP, displaced ASP, ALA point mutant, ASP without side chain, absent}; conformations '
              'from every combination of alt-loc tags {blank,A,B,C,1,2} or MODEL numbers, up to 3 conformations, partial '
              'alternates included) is run through the real program; a reference model of "complete each conformation '
              'from the others without merging residue types, then take the arithmetic mean over the conformations '
              'that contain the group" is evaluated on the per-conformation API records and compared with the AVR '
              'record and the written summary; single-conformation and identical-model equivalences are checked on '
              'docked pairs, clusters and the multi-conformation files shipped with the tests; a second varying residue with its '
              'own tag set, insertion-code twins of the varying residue, models without closing TER and a disulfide that exists '
              'in some conformations only are part of the alphabet.')
LEVEL_NOTE = ('Reference model: completion/mean functions in pkmc/checks/c08.py. Per-conformation values are taken from '
              'the implementation (their correctness is the subject of other properties). More than 3 conformations '
              'and more than two varying residues are outside the bound.')
TECHNIQUE = 'exhaustive enumeration of conformation layouts; reference model (completion + arithmetic mean) compared step by step with the real top-up and averaging'
ASSUMPTIONS = ['a group is identified across conformations by chain, residue number, insertion code, defining atom and type']

VARIANTS = ('ASP', 'ASPs', 'ALA', 'ASPnoCG')
TAGS = (' ', 'A', 'B', 'C', '1', '2')
LETTER = {' ': 'A', 'A': 'A', '1': 'A', 'B': 'B', '2': 'B', 'C': 'C'}


def base_parts():
    """GLY-ASP-GLY from a real chain (neighbours cut to the backbone) plus a lysine docked on OD1."""
    lib = gen.library()
    i = lib.find('3SGB', 'E', 'ASP', 1)
    res = lib.protein_residues('3SGB', 'E')
    pre = [a.clone() for a in res[i - 1][1] if a.name in gen.BACKBONE]
    mid = [a.clone() for a in res[i][1]]
    post = [a.clone() for a in res[i + 1][1] if a.name in gen.BACKBONE]
    for k, grp in enumerate((pre, mid, post)):
        for a in grp:
            a.chain, a.resnum, a.icode, a.alt = 'A', k + 1, ' ', ' '
            if k != 1:
                a.resname = 'GLY'
    c = gen.centroid(pre + mid + post)
    sh = [-int(round(v * 1000)) for v in c]
    for a in pre + mid + post:
        a.x += sh[0]
        a.y += sh[1]
        a.z += sh[2]
    lys = gen.kind_struct('LYS', 'B', 11)
    s_mid = gen.S(pre + mid + post)
    lys = gen.dock(s_mid, [a for a in mid if a.name == 'OD1'][0], lys, gen.kind_atom('LYS', lys), 2.9)
    return pre, mid, post, lys.atoms


def variant_atoms(mid, variant):
    if variant == 'absent':
        return []
    out = [a.clone() for a in mid]
    if variant == 'ALA':
        out = [a for a in out if a.name in gen.BACKBONE + ('CB', 'OXT')]
        for a in out:
            a.resname = 'ALA'
    elif variant == 'ASPnoCG':
        out = [a for a in out if a.name in gen.BACKBONE + ('CB', 'OXT')]
    elif variant == 'HETX':      # a modified residue written as HETATM under another name, with one atom the standard residue lacks
        for a in out:
            a.rec, a.resname = 'HETATM', 'ASX'
        extra = [a for a in out if a.name == 'OD2'][0].clone()
        extra.name4 = ' OD3'
        extra.x, extra.y, extra.z = extra.x + 900, extra.y + 700, extra.z - 600
        out.append(extra)
    elif variant == 'ASPs':
        for a in out:
            if a.name in ('CG', 'OD1', 'OD2'):
                a.x += 400
                a.y += 300
                a.z -= 200
    return out


def lys_variant(lys, variant):
    out = [a.clone() for a in lys]
    if variant == 'LYSs':
        for a in out:
            if a.name == 'NZ':
                a.x += 200
                a.y -= 150
                a.z += 100
    return out


def lys_items(case, lys):
    """The docked lysine: common, or (second varying residue) one full copy per (tag, variant) of case['lys']."""
    if case.get('partner') == 'same-type-twin':
        # the partner is an aspartate of the SAME chain that carries the number of the varying residue plus an insertion code
        # (2A; its caps 1A and 3A), docked carboxylate to carboxylate: same printed label as the varying residue
        pre, mid, post, _ = base_parts()
        asp = gen.kind_struct('ASP', 'A', 2)
        asp = gen.dock(gen.S(pre + mid + post), [a for a in mid if a.name == 'OD2'][0], asp, gen.kind_atom('ASP', asp), 3.4)
        out = [a.clone() for a in asp.atoms]
        centre = [a.resnum for a in out if a.resname == 'ASP'][0]
        for a in out:
            a.resnum, a.icode = a.resnum - centre + 2, 'A'
        return out
    if not case.get('lys'):
        return [a.clone() for a in lys]
    out = []
    for tag, variant in case['lys']:
        for a in lys_variant(lys, variant):
            a.alt = tag
            out.append(a)
    return out


def build_bridge(case, seed=0):
    """Two docked cysteines whose second SG has a bonded (2.03 A) and a free (3.6 A) position: per alt-loc tag or per MODEL."""
    s = gen.pair('CYS', 'CYS', 2.03)
    sg = [a for a in s.atoms if a.name == 'SG']
    u = [sg[1].x - sg[0].x, sg[1].y - sg[0].y, sg[1].z - sg[0].z]
    n = sum(c * c for c in u) ** 0.5
    far = [int(round(c / n * 1570)) for c in u]

    def state(items, which, tag=' '):
        out = []
        for it in items:
            if isinstance(it, str):
                out.append(it)
                continue
            b = it.clone()
            if it is sg[1]:
                b.alt = tag
                if which == 'free':
                    b.x, b.y, b.z = b.x + far[0], b.y + far[1], b.z + far[2]
            out.append(b)
        return out
    items = []
    if case['how'] == 'alt':
        for it in s.items:
            if it is sg[1]:
                for tag, which in case['layout']:
                    items += state([it], which, tag)
            else:
                items.append(it if isinstance(it, str) else it.clone())
    else:
        for num, which in case['layout']:
            items += ['MODEL     %4d\n' % num] + state(s.items, which) + ['ENDMDL\n']
    out = gen.S(items)
    out.translate(gen.seed_offset(seed))
    out.renumber_serials()
    return out


def build(case, seed=0):
    if case['kind'] == 'bridge':
        return build_bridge(case, seed)
    pre, mid, post, lys = base_parts()
    pos = case.get('pos', 'middle')
    twin = case.get('twin')
    if twin == 'post':      # the following residue shares the number of the varying one: 2 / 2A
        for a in post:
            a.resnum, a.icode = 2, 'A'
    elif twin == 'pre':     # the preceding residue shares it: 2 / 2A with the varying residue carrying the code
        for a in pre:
            a.resnum = 2
        for a in mid:
            a.icode = 'A'
    if pos == 'first':      # the varying residue is the N-terminal residue of the chain
        pre = []
    elif pos == 'last':     # ... or the C-terminal one (every variant carries OXT)
        post = []
        from . import c01
        mid = c01.add_oxt(mid)
    items = []
    if case['kind'] == 'alt-atom':
        # alternate locations on one single atom of the varying residue (all other atoms common)
        items += [a.clone() for a in pre]
        for a in mid:
            if a.name == case['atom']:
                for q, tag in enumerate(case['tags']):
                    b = a.clone()
                    b.alt = tag
                    b.x += 150 * q
                    b.y -= 120 * q
                    items.append(b)
            else:
                items.append(a.clone())
        items += [a.clone() for a in post] + ['TER\n'] + [a.clone() for a in lys] + ['TER\n']
    elif case['kind'] == 'alt':
        items += [a.clone() for a in pre]
        common_backbone = case.get('partial', False)
        if common_backbone:
            items += [a.clone() for a in mid if a.name in gen.BACKBONE]
        for tag, variant in case['layout']:
            for a in variant_atoms(mid, variant):
                if common_backbone and a.name in gen.BACKBONE:
                    continue
                a.alt = tag
                items.append(a)
        items += [a.clone() for a in post] + ['TER\n'] + lys_items(case, lys) + ['TER\n']
    else:
        for num, variant in case['layout']:
            items.append('MODEL     %4d\n' % num)
            items += [a.clone() for a in pre] + variant_atoms(mid, variant) + [a.clone() for a in post]
            if case.get('lys_in') is None or num in case['lys_in']:
                items += ['TER\n'] + [a.clone() for a in lys] + ([] if case.get('noter') else ['TER\n'])
            else:
                items += ['TER\n']
            if case.get('solo') and num in case['solo_in']:
                # a chain of its own that holds nothing but one ion / one free amino acid (no atom that receives a hydrogen from the program)
                nz = [a for a in lys if a.name == 'NZ'][0]
                n = (nz.x ** 2 + nz.y ** 2 + nz.z ** 2) ** 0.5          # the tripeptide is centred on the origin: move outwards from it
                if case['solo'] == 'GLU':
                    lib = gen.library()
                    res = lib.protein_residues('3SGB', 'E')
                    from . import c01
                    solo = gen.S(c01.add_oxt([x.clone() for x in res[lib.find('3SGB', 'E', 'GLU', 0)][1]]))
                    ref, dist = [x for x in solo.atoms if x.name == 'CD'][0], 6000
                else:
                    solo = gen.kind_struct(case['solo'], 'C', 21)
                    ref, dist = solo.atoms[0], 3000
                for x in solo.atoms:
                    x.chain, x.resnum, x.icode, x.alt = 'C', 21, ' ', ' '
                solo.translate(tuple(int(round(c + c / n * dist)) - r for c, r in zip((nz.x, nz.y, nz.z), (ref.x, ref.y, ref.z))))
                items += [a.clone() for a in solo.atoms] + ['TER\n']
            items += ['ENDMDL\n']
    s = gen.S(items)
    s.translate(gen.seed_offset(seed))
    s.renumber_serials()
    return s


# ------------------------------------------------------------------ reference model
def own_conformations(items):
    confs = collections.OrderedDict()
    model = 1
    for it in items:
        if isinstance(it, str):
            if it.startswith('MODEL '):
                model = int(it[6:])
            continue
        tag = it.alt
        if tag in '123456789':
            tag = chr(ord(tag) + 16)
        if tag == ' ':
            tag = 'A'
        confs.setdefault('%d%s' % (model, tag), []).append(it)
    names = sorted(confs, key=lambda n: int(n[:-1]) * 100 + ord(n[-1]))
    return names, confs


def check_completion(names, own, mol):
    """Oracle for the topping-up: returns list of (class_key, what)."""
    v = []
    own_res = {}   # conf -> {reskey: (resname, set(names))}
    for n in names:
        d = {}
        for a in own[n]:
            e = d.setdefault(a.reskey, [a.resname, set()])
            e[1].add(a.name)
        own_res[n] = d
    allres = set(k for n in names for k in own_res[n])
    for n in names:
        conf = mol.conformations[n]
        got = {}
        for a in conf.atoms:
            if a.element == 'H':
                continue
            key = (a.chain_id if a.chain_id != '_' else ' ', a.res_num, a.icode)
            e = got.setdefault(key, [set(), set()])
            e[0].add(a.res_name)
            e[1].add(a.name)
        for key, (rn, nm) in got.items():
            if len(rn) > 1:
                v.append(('completion/merged-residue-types', '%s residue %s carries names %s' % (n, key, sorted(rn))))
        for key in allres:
            if key not in got:
                v.append(('completion/residue-missing', '%s lacks residue %s present in another conformation' % (n, key)))
                continue
            rn, nm = got[key]
            if key in own_res[n]:
                if not own_res[n][key][1] <= nm:
                    v.append(('completion/own-atom-lost', '%s residue %s lost %s' % (n, key, sorted(own_res[n][key][1] - nm))))
                if own_res[n][key][0].strip() not in {x.strip() for x in rn}:
                    v.append(('completion/type-changed', '%s residue %s' % (n, key)))
            if len(rn) == 1:
                t = next(iter(rn))
                want = set()
                for m in names:
                    if key in own_res[m] and own_res[m][key][0].strip() == t.strip():
                        want |= own_res[m][key][1]
                if not want <= nm:
                    v.append(('completion/atoms-not-topped-up', '%s residue %s (%s) lacks %s' % (n, key, t, sorted(want - nm))))
                extra = nm - want
                if extra:
                    v.append(('completion/atoms-of-other-type', '%s residue %s (%s) has foreign atoms %s' % (n, key, t, sorted(extra))))
    return v


def check_census(mol):
    """Every conformation must show the census (C01 reference automaton) of the atoms it contains after completion."""
    from . import c01
    v = []
    for name in mol.conformation_names:
        conf = mol.conformations[name]
        items, last = [], None
        heavy = [a for a in conf.atoms if a.element != 'H']
        heavy.sort(key=lambda a: (a.chain_id, a.res_num, a.icode, a.name not in ('N',), a.name))
        for a in heavy:
            if last is not None and a.chain_id != last:
                items.append('TER\n')
            last = a.chain_id
            items.append(gen.A('ATOM  ' if a.type == 'atom' else 'HETATM', '    0', gen.name4(a.name, a.element), ' ', a.res_name,
                               a.chain_id if a.chain_id != '_' else ' ', a.res_num, a.icode or ' ', int(round(a.x * 1000)),
                               int(round(a.y * 1000)), int(round(a.z * 1000))))
        exp, info, _, _ = c01.census(items)
        want = collections.Counter(c01.key4(g) for g in exp)
        got = collections.Counter(c01.key4(g) for g in c01.observed(mol, name))
        for k in (want - got):
            v.append(('conformation-census/missing/%s' % k[3], '%s: %s expected from the atoms of the conformation' % (name, k)))
        for k in (got - want):
            v.append(('conformation-census/spurious/%s' % k[3], '%s: %s not expected from the atoms of the conformation' % (name, k)))
    return v


FIELDS = ('pka', 'energy_volume', 'num_volume', 'energy_local', 'num_local', 'buried')


def site_key(g):
    """Identity of a group across conformations.  The amino / carboxyl terminus of a residue is the same site whatever side
    chain the residue carries in a conformation (alt-loc point mutant), so its residue name is not part of the identity."""
    if g['residue_type'] in ('N+', 'C-'):
        k = g['key'].split(':')
        k[2] = '*'
        return ':'.join(k)
    return g['key']


def check_average(rec, parsed, tol=1e-9):
    """Oracle for the average: AVR == arithmetic mean over the conformations containing the group."""
    v = []
    names = rec['conformations']
    per = collections.OrderedDict()
    for n in names:
        for g in rec['confs'][n]['groups']:
            if g['use']:
                per.setdefault(site_key(g), []).append((n, g))
    avr = collections.Counter()
    avr_by = {}
    for g in rec['confs']['AVR']['groups']:
        avr[site_key(g)] += 1
        avr_by[site_key(g)] = g
    for key, occ in per.items():
        nconf = len(occ)
        situation = 'in-all' if nconf == len(names) else ('first-only' if occ[0][0] == names[0] and nconf == 1 else
                                                          ('absent-in-first' if occ[0][0] != names[0] else 'in-some'))
        if avr[key] != 1:
            v.append(('avr-group-count/%s' % situation, '%s reported %d times in AVR (present in %s)' % (key, avr[key], [o[0] for o in occ])))
            continue
        a = avr_by[key]
        for f in FIELDS:
            mean = sum(g[f] for _, g in occ) / nconf
            if not cmp.close(a[f], mean, tol):
                v.append(('avr-not-mean/%s/%s' % (f, situation), '%s %s AVR=%r mean=%r over %s' % (key, f, a[f], mean, [o[0] for o in occ])))
                break
        for t in pk.DET_TYPES:
            sums = collections.defaultdict(float)
            for _, g in occ:
                for pkey, lab, val in g['dets'][t]:
                    sums[lab] += val
            got = collections.defaultdict(float)
            for pkey, lab, val in a['dets'][t]:
                got[lab] += val
            for lab in set(sums) | set(got):
                if not cmp.close(got.get(lab, 0.0), sums.get(lab, 0.0) / nconf, tol):
                    v.append(('avr-not-mean/det-%s/%s' % (t, situation), '%s %s partner %r AVR=%r mean=%r' % (
                        key, t, lab, got.get(lab, 0.0), sums.get(lab, 0.0) / nconf)))
                    break
        if not cmp.close(a['model_pka'], occ[0][1]['model_pka'], tol):
            v.append(('avr-model-pka', '%s model %r vs %r' % (key, a['model_pka'], occ[0][1]['model_pka'])))
    for key in avr:
        if key not in per:
            v.append(('avr-spurious-group', '%s in AVR but in no conformation' % key))
    # reported in the summary
    if parsed is not None:
        labels = collections.Counter(r['label'] for r in parsed['summary'])
        want = collections.Counter()
        for key, occ in per.items():
            if any(g['penalised_by'] for _, g in occ):
                continue
            want[occ[0][1]['label']] += 1
        for lab in (want - labels):
            v.append(('summary-missing-group', 'summary lacks %r' % lab))
        tab = collections.Counter(r['label'] for r in parsed['det'])
        for lab in (want - tab):
            v.append(('determinant-table-missing-group', 'determinant table lacks %r' % lab))
    return v


def same_as(rec_multi, rec_single, tol=1e-9):
    """AVR of rec_multi == AVR of rec_single (groups, values, determinants)."""
    return cmp.diff_conf(rec_multi['confs']['AVR'], rec_single['confs']['AVR'], tol)



# ------------------------------------------------------------------ enumeration
def layouts(tier):
    cases = []
    for k in (1, 2, 3):
        for tags in itertools.permutations(TAGS, k):
            if len({LETTER[t] for t in tags}) < k:
                continue
            if list(tags) != sorted(tags, key=TAGS.index):
                continue
            for vs in itertools.product(VARIANTS, repeat=k):
                cases.append(dict(kind='alt', layout=list(zip(tags, vs))))
                if all(x in ('ASP', 'ASPs') for x in vs) and k > 1:
                    cases.append(dict(kind='alt', layout=list(zip(tags, vs)), partial=True))
    # the varying residue at the N- and at the C-terminus of the chain (point mutants included)
    for pos in ('first', 'last'):
        for tags in ((' ',), ('A', 'B'), ('B', 'C'), ('1', '2'), ('A', 'B', 'C')):
            for vs in itertools.product(('ASP', 'ASPs', 'ALA'), repeat=len(tags)):
                cases.append(dict(kind='alt', layout=list(zip(tags, vs)), pos=pos))
        for nums in ((1, 2), (1, 2, 3)):
            for vs in itertools.product(('ASP', 'ALA', 'ASPnoCG'), repeat=len(nums)):
                cases.append(dict(kind='model', layout=list(zip(nums, vs)), pos=pos))
    for tags in (('A', 'B'), ('B', 'C'), ('A', 'B', 'C')):
        for pos in ('first', 'middle', 'last'):
            cases.append(dict(kind='alt-atom', tags=list(tags), pos=pos, atom='N'))
            cases.append(dict(kind='alt-atom', tags=list(tags), pos=pos, atom='OXT' if pos == 'last' else 'CG'))
    # a second varying residue: the docked lysine carries alternates of its own, with tag sets that need not match
    t2 = (' ', 'A', 'B') if tier == 'quick' else (' ', 'A', 'B', 'C')
    tagsets = [(t,) for t in t2] + [c for c in itertools.combinations(t2, 2) if len({LETTER[x] for x in c}) == 2]
    for mt in tagsets:
        for mvs in itertools.product(('ASP', 'ASPs', 'ALA'), repeat=len(mt)):
            for lt in tagsets:
                for lvs in itertools.product(('LYS', 'LYSs'), repeat=len(lt)):
                    if len(mt) == 1 and len(lt) == 1 and tier == 'quick' and (mvs[0] != 'ASP' or lvs[0] != 'LYS'):
                        continue
                    cases.append(dict(kind='alt', layout=list(zip(mt, mvs)), lys=list(zip(lt, lvs))))
    # a neighbour that differs from the varying residue only in its insertion code (2 / 2A)
    for twin in ('post', 'pre'):
        for tags in ((' ',), ('A', 'B'), ('B', 'C'), (' ', 'B'), ('A', 'B', 'C')):
            for vs in itertools.product(('ASP', 'ASPs', 'ALA'), repeat=len(tags)):
                cases.append(dict(kind='alt', layout=list(zip(tags, vs)), twin=twin))
                if len(tags) == 2:
                    cases.append(dict(kind='alt', layout=list(zip(tags, vs)), twin=twin, lys=[('A', 'LYS'), ('B', 'LYSs')]))
        for nums in ((1, 2), (1, 2, 3)):
            for vs in itertools.product(('ASP', 'ALA', 'ASPnoCG', 'absent'), repeat=len(nums)):
                if all(x == 'absent' for x in vs):
                    continue
                cases.append(dict(kind='model', layout=list(zip(nums, vs)), twin=twin))
    # the partner chain exists in some models only
    for lys_in in ((2,), (1,), (2, 3), (3,)):
        for nums in ((1, 2), (1, 2, 3)):
            if max(lys_in) <= max(nums):
                for vs in itertools.product(('ASP', 'ASPs'), repeat=len(nums)):
                    cases.append(dict(kind='model', layout=list(zip(nums, vs)), lys_in=list(lys_in)))
    # an aspartate of the same chain with the same number and an insertion code docked to the varying residue (same printed label)
    for tags in (('A', 'B'), ('A', 'B', 'C')):
        for vs in itertools.product(('ASP', 'ASPs', 'ALA'), repeat=len(tags)):
            if 'ALA' in vs and len(set(vs)) > 1:
                cases.append(dict(kind='alt', layout=list(zip(tags, vs)), partner='same-type-twin'))
    # a chain that exists in some models only and holds nothing but an ion or one free amino acid
    for solo in ('CA', 'GLU'):
        for solo_in in ((2,), (1,), (1, 2), (2, 3)):
            for nums in ((1, 2), (1, 2, 3)):
                if max(solo_in) <= max(nums):
                    cases.append(dict(kind='model', layout=[(n, 'ASP') for n in nums], solo=solo, solo_in=list(solo_in)))
    # all hydrogens supplied and kept (--keep-protons); one side chain has two alternate positions: the second conformation must be
    # given the hydrogens too
    for shift in ((0, 0, 0), (120, -80, 100)):
        cases.append(dict(kind='keep-h', shift=list(shift)))
    # one alternate is a modified residue given as HETATM (SER/SEP, CYS/CSO, MET/MSE ...)
    for tags in (('A', 'B'), ('A', 'B', 'C')):
        for vs in itertools.product(('ASP', 'HETX', 'ALA'), repeat=len(tags)):
            if 'HETX' in vs and len(set(vs)) > 1:
                cases.append(dict(kind='alt', layout=list(zip(tags, vs))))
    for vs in itertools.product(('ASP', 'HETX', 'absent'), repeat=2):
        if 'HETX' in vs and len(set(vs)) > 1:
            cases.append(dict(kind='model', layout=list(zip((1, 2), vs))))
    # models whose last chain is closed neither by TER nor by OXT
    for nums in ((1, 2), (1, 2, 3)):
        for vs in itertools.product(('ASP', 'ALA', 'ASPnoCG'), repeat=len(nums)):
            cases.append(dict(kind='model', layout=list(zip(nums, vs)), noter=True))
    # a disulfide that exists in some conformations only
    for lay in itertools.product(('bonded', 'free'), repeat=2):
        cases.append(dict(kind='bridge', how='alt', layout=list(zip(('A', 'B'), lay))))
        cases.append(dict(kind='bridge', how='model', layout=list(zip((1, 2), lay))))
    for lay in itertools.product(('bonded', 'free'), repeat=3):
        cases.append(dict(kind='bridge', how='alt', layout=list(zip(('A', 'B', 'C'), lay))))
        cases.append(dict(kind='bridge', how='model', layout=list(zip((1, 2, 3), lay))))
    mv = VARIANTS + ('absent',)
    for nums in ((1,), (1, 2), (2, 5), (1, 10), (1, 2, 3)):
        if tier == 'quick' and nums == (2, 5):
            continue
        for vs in itertools.product(mv, repeat=len(nums)):
            if all(x == 'absent' for x in vs):
                continue
            cases.append(dict(kind='model', layout=list(zip(nums, vs))))
    return cases


REPEAT_INPUTS = [('pair', 'ASP', 'LYS', 2.8, 'exposed'), ('pair', 'GLU', 'HIS', 3.0, 'mid'), ('pair', 'TYR', 'ARG', 3.0, 'exposed'),
                 ('pair', 'ACT', 'LYS', 2.8, 'exposed'), ('pair', 'CYS', 'CYS', 2.03, 'exposed'), ('pair', 'N+', 'C-', 3.0, 'exposed'),
                 ('pair', 'HIS', 'HIS', 3.2, 'mid'), ('pair', 'CA', 'GLU', 2.6, 'mid'), ('cluster', ('ASP', 'GLU', 'LYS'), 'line', 3.0, 'mid'),
                 ('cluster', ('GLU', 'GLU', 'HIS'), 'star', 3.0, 'mid'), ('cluster', ('TYR', 'LYS', 'ASP'), 'line', 3.0, 'exposed')]
TWO_COPIES = [('ACT', 'LYS'), ('MAM', 'GLU'), ('PYR', 'ASP'), ('MSH', 'HIS')]
FILES = ['conf-alt-AB-mutant.pdb', 'conf-alt-AB.pdb', 'conf-alt-BC.pdb', 'conf-model-missing-atoms.pdb',
         'conf-model-mutant.pdb', '1FTJ-Chain-A.pdb']


def plan(tier, seed):
    lay = layouts(tier)
    reps = [dict(kind='repeat', inp=list(i), k=k) for i in REPEAT_INPUTS for k in (2, 3)]
    files = [dict(kind='file', name=f) for f in FILES]
    reps += [dict(kind='twocopies', lig=l, partner=p_, k=k) for l, p_ in TWO_COPIES for k in (1, 2)]
    reps += [dict(kind='twins-single', a=a, b=b) for a, b in (('GLU', 'GLU'), ('LYS', 'LYS'), ('ASP', 'ASP'), ('HIS', 'HIS'), ('GLU', 'LYS'))]
    shards = [lay[i:i + 40] for i in range(0, len(lay), 40)] + [reps[i:i + 4] for i in range(0, len(reps), 4)] + [[f] for f in files]
    return dict(shards=shards, exhaustive=True,
                rule=('alt-loc layouts: all ordered choices of <= 3 tags from {blank,A,B,C,1,2} mapping to distinct '
                      'conformations x variant per tag in {ASP, displaced ASP, ALA, ASP without side chain}, plus partial '
                      'alternates (side chain only); MODEL layouts: model numbers (1),(1,2),(1,10),(1,2,3)[,(2,5)] x '
                      'variant per model incl. absent; 11 docked pairs/clusters repeated as 2 and 3 identical models; the '
                      'multi-conformation files of the test-suite. a docked aspartate of the same chain and number with an insertion code (same printed label); also: the varying residue first / last in its chain, alternate locations on one single atom, a second varying residue (docked lysine with its own tag set), insertion-code twins of the varying residue, a partner chain / a chain holding one ion or one free amino acid present in some models only, models without closing TER, a disulfide present in some conformations only, a hetero-atom variant of the residue, supplied hydrogens kept in every conformation. non-trivial = distinct layouts in which at least one '
                      'group exists in more than one conformation or in only some conformations'),
                bounds=dict(max_conformations=3, layouts=len(lay), repeats=len(reps), files=len(files)),
                samples=[lay[100], reps[0]])


def run_case(case, ctx, acc):
    k = case['kind']
    viols = []
    if k == 'keep-h':
        from . import c07
        one = build(dict(kind='alt', layout=[(' ', 'ASP')]), ctx.seed)
        fed = c07.hydrogens_fed_back(one, pk.run(gen.to_text(one)))
        items = []
        for it in fed:
            if isinstance(it, str):
                items.append(it)
                continue
            it = it.clone()
            if it.element == 'H':
                it.x, it.y, it.z = it.x + case['shift'][0], it.y + case['shift'][1], it.z + case['shift'][2]
            if it.chain == 'A' and it.resnum == 2 and it.name in ('CG', 'OD1', 'OD2'):
                b = it.clone()
                it.alt, b.alt = 'A', 'B'
                b.x, b.y, b.z = b.x + 400, b.y + 300, b.z - 200
                items += [it, b]
            else:
                items.append(it)
        text = gen.to_text(items)
        mol = pk.run(text, ('--keep-protons',), write=True)
        rec = pk.record(mol)
        acc.case(nontrivial_key=jhash(case), outcome='keep-h')
        supplied = sorted((a.chain, a.resnum, a.name, a.x, a.y, a.z) for a in items if not isinstance(a, str) and a.element == 'H')
        for n in mol.conformation_names:
            have = sorted((a.chain_id, a.res_num, a.name, int(round(a.x * 1000)), int(round(a.y * 1000)), int(round(a.z * 1000)))
                          for a in mol.conformations[n].atoms if a.element == 'H')
            miss = [h for h in supplied if h not in have]
            if miss:
                viols.append(('completion/hydrogens-not-topped-up', '%s lacks %d of the %d supplied hydrogens, e.g. %s' % (n, len(miss), len(supplied), miss[:3])))
        viols += check_average(rec, pk.parse_pka(mol._pka_text))
        inputs = dict(pdb=text, opts=['--keep-protons'])
    elif k in ('alt', 'model', 'alt-atom', 'bridge'):
        s = build(case, ctx.seed)
        text = gen.to_text(s)
        mol = pk.run(text, write=True)
        rec = pk.record(mol)
        names, own = own_conformations(s.items)
        acc.extra['states'] += len(names)
        acc.extra['transitions'] += sum(len(own[n]) for n in names)
        acc.extra['traces'] += 1
        if names != rec['conformations']:
            viols.append(('conformation-names', 'expected %s got %s' % (names, rec['conformations'])))
        else:
            viols += check_completion(names, own, mol)
        viols += check_average(rec, pk.parse_pka(mol._pka_text))
        viols += check_census(mol)
        if len(names) == 1:
            only_conf = dict(rec['confs'][names[0]])
            only_conf['groups'] = [g for g in only_conf['groups'] if g['use']]
            d = cmp.diff_conf(rec['confs']['AVR'], only_conf)
            if d:
                viols.append(('single-conformation-avr-differs/' + d[0][0], str(d[0])))
        per = collections.Counter()
        for n in rec['conformations']:
            for g in rec['confs'][n]['groups']:
                if g['use']:
                    per[g['key']] += 1
        nt = len(rec['conformations']) > 1 and any(True for c in per.values())
        sig = sorted((kk.split(':')[3], c) for kk, c in per.items())
        acc.case(nontrivial_key=jhash(case) if nt else None, outcome=jhash([len(names), sig]),
                 sample=dict(case=case, text=text[:300]))
        inputs = dict(pdb=text)
    elif k == 'twins-single':
        # one conformation, two residues of the same type that differ only in insertion code: the average is that conformation
        from . import c09
        text = c09.real_text(('twins', case['a'], case['b']), ctx.seed)
        mol = pk.run(text, write=True)
        rec = pk.record(mol)
        name = rec['conformations'][0]
        only_conf = dict(rec['confs'][name])
        only_conf['groups'] = [g for g in only_conf['groups'] if g['use']]
        d = cmp.diff_conf(rec['confs']['AVR'], only_conf)
        acc.case(nontrivial_key=jhash(case), outcome='twins-single')
        if d:
            viols.append(('single-conformation-avr-differs/same-type-twins/' + d[0][0], str(d[0])))
        inputs = dict(pdb=text)
    elif k == 'repeat':
        inp = case['inp']
        if inp[0] == 'pair':
            s = gen.pair(inp[1], inp[2], inp[3], level=inp[4], offset=gen.seed_offset(ctx.seed))
        else:
            s = gen.cluster(tuple(inp[1]), inp[2], inp[3], level=inp[4], offset=gen.seed_offset(ctx.seed))
        single = gen.to_text(s)
        multi = ''.join('MODEL     %4d\n%sENDMDL\n' % (m + 1, single) for m in range(case['k']))
        r1 = pk.record(pk.run(single))
        mm = pk.run(multi, write=True)
        rk = pk.record(mm)
        d = same_as(rk, r1)
        if d:
            viols.append(('identical-models-change-result/' + d[0][0], str(d[0])[:300]))
        viols += check_average(rk, pk.parse_pka(mm._pka_text))
        acc.extra['traces'] += 1
        acc.extra['states'] += case['k']
        acc.case(nontrivial_key=jhash(case), outcome='repeat-%d' % len(rk['confs']['AVR']['groups']))
        inputs = dict(pdb=multi)
    elif k == 'twocopies':
        # two copies of one ligand in the same chain (residues 1 and 2): one bound to a partner, one free 30 A away
        s1 = gen.pair(case['lig'], case['partner'], 2.9, level='mid', offset=gen.seed_offset(ctx.seed))
        free = gen.kind_struct(case['lig'], 'A', 2)
        ext = s1.extent()
        free.translate((ext[0][1] + 30000, (ext[1][0] + ext[1][1]) // 2, (ext[2][0] + ext[2][1]) // 2))
        items = [i for i in s1.items] + free.items + ['TER\n']
        single = gen.to_text(gen.S(items).renumber_serials())
        text = single if case['k'] == 1 else ''.join('MODEL     %4d\n%sENDMDL\n' % (m + 1, single) for m in range(case['k']))
        mol = pk.run(text, write=True)
        rec = pk.record(mol)
        viols += check_average(rec, pk.parse_pka(mol._pka_text))
        first = dict(rec['confs'][rec['conformations'][0]])
        first['groups'] = [g for g in first['groups'] if g['use']]
        d = cmp.diff_conf(rec['confs']['AVR'], first)
        if d:
            viols.append(('identical-conformations-avr-differs/' + d[0][0], str(d[0])[:300]))
        vals = [round(g['pka'], 6) for g in rec['confs']['AVR']['groups'] if g['key'].split(':')[2] == case['lig']]
        acc.extra['traces'] += 1
        acc.extra['states'] += case['k']
        acc.case(nontrivial_key=jhash(case) if len(set(vals)) > 1 else None, outcome='twocopies-%d' % len(set(vals)))
        inputs = dict(pdb=text)
    elif k == 'file':
        with open(os.path.join(gen.DATA, case['name'])) as fh:
            text = fh.read()
        mol = pk.run(text, write=True)
        rec = pk.record(mol)
        s = gen.parse_text(text)
        s.items = [i for i in s.items if isinstance(i, str) or i.resname not in ('HOH',)]
        names, own = own_conformations(s.items)
        if names == rec['conformations'] and not any(a.rec == 'HETATM' for a in s.atoms):
            viols += check_completion(names, own, mol)
        viols += check_average(rec, pk.parse_pka(mol._pka_text))
        acc.extra['traces'] += 1
        acc.extra['states'] += len(names)
        acc.case(nontrivial_key=jhash(case), outcome='file-%s' % case['name'])
        inputs = dict(file=case['name'])
    seen = set()
    for ck, what in viols:
        if ck not in seen:
            seen.add(ck)
            acc.viols.append(Viol(case, 'average', ck, what, inputs=inputs))

"""C04 - predictions do not depend on where the structure sits in space."""
import itertools
import math

from ..core import Acc, Viol, jhash
from .. import pk, gen, cmp, corpus
from . import c07
import propka.vector_algebra

ID = 'C04'
HORIZON_S = 1800   # one case = one input under all its transformations
LEVEL = 'exploration'
LEVEL_TEXT = ('Every input of the corpus (docked pairs incl. ligands and ions, clusters, cut-outs, windows, and fragments flattened '
              'into a coordinate plane so that every exact-zero shortcut of the hydrogen builder is hit) is moved by every one of the '
              '24 axis-permuting proper rotations combined with translations from a fixed list (none, generic, all-negative, x near '
              '9900, x near -990, plus the seed offset) - all exact on the 0.001 A grid - and run through the real program. Bonds, '
              'protein/ion groups, buried counts and desolvation must be identical; for amino-acid inputs every pKa and determinant '
              'must be identical (1e-9) both with the program\'s own hydrogens supplied (--keep-protons) and with hydrogens built '
              'without the final rounding (harness seam), which isolates "the effect of rounding" exactly.')
LEVEL_NOTE = ('Differential oracle between real executions. Inputs with a pair distance within 1e-6 A of a cut-off compared with "<" '
              '(20, 15, 10 A, bond thresholds) are skipped by a guard computed from the input; inputs in which a hydrogen is built '
              'through Vector.orthogonal() (lone-neighbour rotamer, frame dependent by design) are excluded from the pKa claims and '
              'counted. Production-mode (rounded) deviations are measured and reported, not judged.')
TECHNIQUE = 'exhaustive enumeration of the 24 grid rotations x translation list over a bounded input corpus; differential comparison of real executions'
ASSUMPTIONS = ['replacing round() inside propka.protonate by the identity is a faithful model of "no coordinate rounding"']

TRANSLATIONS = {'none': (0, 0, 0), 'generic': (12345, -54321, 777), 'far-positive': None, 'far-negative': None, 'all-negative': None,
                'edge-positive': None, 'edge-negative': None}


def translations(s, tier, seed):
    ext = s.extent()
    out = {'none': (0, 0, 0), 'generic': (12345, -54321, 777)}
    out['all-negative'] = tuple(-ext[i][1] - 1234 for i in range(3))
    out['far-positive'] = tuple(9900000 - ext[i][1] for i in range(3))
    out['far-negative'] = tuple(-985000 - ext[i][0] for i in range(3))     # hydrogens may stick out by ~1 A
    # the structure touches the faces of the PDB coordinate field: constructed hydrogens may lie outside it
    out['edge-positive'] = tuple(9999999 - ext[i][1] for i in range(3))
    out['edge-negative'] = tuple(-999999 - ext[i][0] for i in range(3))
    if seed:
        out['seed'] = gen.seed_offset(seed)
    return out


QUICK_FULL = ('generic', 'far-positive')     # combined with all 24 rotations in the quick tier; the rest with 4 rotations


def flat_fragment(kind, pucker=0):
    """A capped fragment rigidly moved so that the planar group of `kind` lies exactly in a plane z = const; `pucker` (in 0.001 A)
    then lifts the central sp2 atom (first name of the list) out of that plane."""
    s = gen.kind_struct(kind, 'A', 1)
    names = {'ARG': ('CZ', 'NE', 'NH1', 'NH2'), 'HIS': ('CG', 'ND1', 'CD2', 'CE1', 'NE2'), 'ASN': ('CG', 'OD1', 'ND2', 'CB'),
             'GLN': ('CD', 'OE1', 'NE2', 'CG'), 'TRP': ('CD1', 'NE1', 'CE2', 'CD2', 'CG')}[kind]
    pl = [a for a in s.atoms if a.name in names and a.resname == kind]
    p0, p1, p2 = pl[0].xyz, pl[1].xyz, pl[2].xyz
    n = gen._cross(gen._sub(p1, p0), gen._sub(p2, p0))
    R = gen.rotmat(n, [0.0, 0.0, 1.0])
    for a in s.atoms:
        q = [sum(R[i][j] * a.xyz[j] for j in range(3)) for i in range(3)]
        a.x, a.y, a.z = (int(round(v * 1000)) for v in q)
    z = int(round(sum(a.z for a in pl) / len(pl)))
    for a in pl:
        a.z = z
    if pucker:
        centre = [a for a in pl if a.name == names[0]][0]
        centre.z += pucker
    return s


def inputs(tier):
    out = [dict(src='flat', kind=k) for k in ('ARG', 'HIS', 'ASN', 'GLN', 'TRP')]
    # the sp2 carbon of a guanidinium / amide lifted 0.15 A out of the plane of its substituents (pyramidalised, as refinement leaves some)
    out += [dict(src='flat', kind=k, pucker=150) for k in ('ARG', 'ASN', 'GLN')]
    out += [dict(src='corpus', d=d) for d in corpus.pairs('quick', kinds_a=('ASP', 'HIS', 'ARG', 'TYR', 'N+'),
                                                       kinds_b=('LYS', 'GLU', 'C-', 'ARG', 'ASN', 'TRP', 'CYS', 'SER'))[:: (1 if tier == 'thorough' else 2)]]
    out += [dict(src='corpus', d=d) for d in corpus.pairs('quick', kinds_a=('ACT', 'PYR', 'MGU', 'CA'), kinds_b=('LYS', 'GLU', 'HIS', 'MAM', 'MOH'))[:: (1 if tier == 'thorough' else 3)]]
    out += [dict(src='corpus', d=d) for d in corpus.clusters(tier)[:: (4 if tier == 'thorough' else 10)]]
    out += [dict(src='corpus', d=d) for d in corpus.cutouts(tier, radius=8.0)[:: (3 if tier == 'thorough' else 6)]]
    out += [dict(src='corpus', d=d) for d in corpus.windows(tier, k=5)[:: (2 if tier == 'thorough' else 8)]]
    # COO-ARG exception path with the carboxylate approaching a guanidinium nitrogen rather than a hydrogen
    for ks in (('CYS', 'ARG', 'C-'), ('ASP', 'ARG', 'GLU'), ('ARG', 'C-', 'ASP'), ('GLU', 'ARG', 'ARG')):
        for layout in ('line', 'star'):
            out.append(dict(src='corpus', d=corpus.cluster_desc(ks, layout, 3.0, 'deep')))
    out.append(dict(src='corpus', d=corpus.cutout_desc('4DFR', 'B', 26, 8.0)))
    # multi-conformation inputs (every conformation and the average are compared)
    for d in (dict(kind='alt', layout=[['A', 'ASP'], ['B', 'ASPs']], lys=[['B', 'LYSs'], ['C', 'LYS']]),
              dict(kind='model', layout=[[1, 'ASP'], [2, 'ASPnoCG'], [3, 'ASPs']])):
        out.append(dict(src='c08', d=d))
    # metal sites at coordination distance (sulfur / nitrogen / oxygen 2.0-2.4 A from the metal, two ligands on one metal)
    for a, b, dist in (('CYS', 'ZN', 2.3), ('CYS', 'FE', 2.3), ('HIS', 'ZN', 2.1), ('MSH', 'ZN', 2.3), ('ASP', 'CA', 2.35), ('CYS', 'CU', 2.2)):
        out.append(dict(src='corpus', d=corpus.pair_desc(a, b, dist, 'mid')))
    for ks in (('ZN', 'CYS', 'CYS'), ('ZN', 'CYS', 'HIS'), ('FE', 'CYS', 'CYS'), ('CA', 'ASP', 'GLU')):
        out.append(dict(src='corpus', d=corpus.cluster_desc(ks, 'star', 2.3, 'mid')))
    # residues whose interaction atoms are missing (carboxylates without oxygens, histidine without ring): the group must stay where its
    # remaining atoms are
    out.append(dict(src='corpus', d=corpus.window_desc('1HPX', 'A', 20, 15, strip='tips')))
    out.append(dict(src='corpus', d=corpus.window_desc('3SGB', 'E', 40, 20, strip='tips')))
    # an atom record repeated almost on top of itself (0.004 A apart): whatever the program makes of it must not depend on the pose
    for d in (corpus.window_desc('3SGB', 'I', 26, 5), corpus.pair_desc('ASP', 'LYS', 2.8, 'mid')):
        out.append(dict(src='dup-record', d=d))
    # a structure of more than 4000 atoms (several proteins side by side), far on the negative and on the positive side of the origin
    out.append(dict(src='large', keys=['4DFR', '1FTJ', '1HPX'], motions=[[0, 'all-negative'], [13, 'generic'], [22, 'all-negative']]))
    # disulfides exactly along an axis, slid over the cell grid
    for d in (2.05, 2.3, 2.49):
        out.append(dict(src='ss-scan', d=d))
    # parameter files that change the ranges (incl. desolvation range shorter than the burial range)
    for name in ('coupled-centre', 'coupled-shared'):     # covalently coupled groups get a common centre / share determinants
        out.append(dict(src='corpus', d=corpus.window_desc('3SGB', 'I', 0, 12), cfg=name))
        out.append(dict(src='corpus', d=corpus.window_desc('1HPX', 'A', 66, 8), cfg=name))
        out.append(dict(src='corpus', d=corpus.window_desc('1FTJ', 'A', 55, 10), cfg=name))
        out.append(dict(src='corpus', d=corpus.cutout_desc('4DFR', 'A', 26, 9.0), cfg=name))
    for name in CFG_EDITS:
        out.append(dict(src='corpus', d=corpus.pair_desc('ASP', 'LYS', 2.8, 'deep'), cfg=name))
        out.append(dict(src='corpus', d=corpus.pair_desc('HIS', 'GLU', 3.0, 'deep'), cfg=name))
        out.append(dict(src='corpus', d=corpus.cutout_desc('3SGB', 'E', 40, 12.0), cfg=name))
        out.append(dict(src='corpus', d=corpus.cutout_desc('1HPX', 'A', 24, 12.0), cfg=name))
    if tier == 'thorough':
        out += [dict(src='corpus', d=corpus.chain_desc('3SGB', 'I'))]
    # every constructed hydrogen that can be the outermost atom in some direction, in the pose where it is: the structure turned so
    # that this direction is +x / -x and pushed against the face of the PDB coordinate field (the hydrogen then lies outside it)
    out += [dict(src='edge-h', base=dict(src='flat', kind=k)) for k in ('ARG', 'HIS', 'ASN', 'GLN', 'TRP')]
    prs = corpus.pairs('quick', kinds_a=('ASP', 'HIS', 'ARG', 'TYR', 'N+'), kinds_b=('LYS', 'GLU', 'C-', 'ARG', 'ASN', 'TRP', 'CYS', 'SER', 'ASNO'),
                       levels=('exposed',))
    out += [dict(src='edge-h', base=dict(src='corpus', d=d)) for d in prs[:: (1 if tier == 'thorough' else 3)]]
    out += [dict(src='edge-h', base=dict(src='corpus', d=d)) for d in corpus.windows(tier, k=5)[:: (1 if tier == 'thorough' else 4)]]
    out += [dict(src='edge-h', base=dict(src='corpus', d=d)) for d in corpus.windows(tier, k=3)[:: (2 if tier == 'thorough' else 8)]]
    return out


def plan(tier, seed):
    ins = inputs(tier)
    shards = [[i] for i in ins]
    return dict(shards=shards, exhaustive=True,
                rule=('inputs: 5 flattened planar fragments, docked pairs (5x8 amino-acid kinds; 4x5 with ligands/ions), clusters, 8 A '
                      'cut-outs, 5-residue windows; motions: 24 rotations x translations {generic, x~9900}%s; for amino-acid inputs each '
                      'motion is run twice (hydrogens built un-rounded; own hydrogens fed back with --keep-protons) and once more with --protonate-all; translations that push the '
                      'structure against the faces of the coordinate field, incl. (small inputs) every pose in which a constructed hydrogen is '
                      'the outermost atom. multi-conformation layouts, metal-site pairs and clusters, windows cut down to defining atoms, inputs with a duplicated record and with more than 4000 atoms; coupled inputs under parameter files with common charge centre / shared determinants. non-trivial = distinct '
                      '(input, motion) other than the identity whose record has a determinant or a non-zero desolvation term') % (
                          ' and 4 rotations x {none, all-negative, x~-990, seed}' if tier == 'quick' else ' plus {none, all-negative, x~-990, seed}'),
                bounds=dict(inputs=len(ins), rotations=24), samples=[ins[0], ins[10]])


LIGAND_GROUP_TYPES = ('NAR', 'NAM', 'F', 'Cl', 'OH', 'OP', 'O3', 'O2', 'SH', 'CG', 'C2N', 'OCO', 'N30', 'N31', 'N32', 'N33', 'NP1', 'N1', 'LG', 'ALG', 'BLG')


class OrthoSeam:
    """Counts calls of Vector.orthogonal (lone-neighbour rotamers)."""

    def __init__(self):
        self.calls = 0
        self.orig = propka.vector_algebra.Vector.orthogonal
        seam = self

        def wrapped(v):
            seam.calls += 1
            return seam.orig(v)
        propka.vector_algebra.Vector.orthogonal = wrapped

    def remove(self):
        propka.vector_algebra.Vector.orthogonal = self.orig


def ties(rec, s, cuts=(20.0, 15.0, 10.0)):
    """Guard from the input alone: any distance the model compares with '<' within 1e-6 A of its cut-off."""
    if gen.cutoff_ties(s, cutoffs=(2.5, 2.0, 1.7, 1.5)):
        return True
    conf = rec['confs'][rec['conformations'][0]]
    heavy = [(a.x / 1000.0, a.y / 1000.0, a.z / 1000.0) for a in s.atoms if a.element != 'H']
    cents = [g['xyz'] for g in conf['groups'] if g['titratable'] or g['type'] == 'ION']
    for c in cents:
        for p in heavy:
            d = math.sqrt((c[0] - p[0]) ** 2 + (c[1] - p[1]) ** 2 + (c[2] - p[2]) ** 2)
            if abs(d - cuts[0]) < 1e-6 or abs(d - cuts[1]) < 1e-6:
                return True
    allc = [g['xyz'] for g in conf['groups']]
    for i in range(len(allc)):
        for j in range(i):
            d = math.sqrt(sum((allc[i][k] - allc[j][k]) ** 2 for k in range(3)))
            if abs(d - cuts[2]) < 1e-6:
                return True
    return False


def all_bonds(mol):
    """Every bond incl. those of supplied hydrogens, keyed by atom identity."""
    conf = mol.conformations[mol.conformation_names[0]]

    def ak(a):
        return (a.chain_id, a.res_num, a.res_name, a.name)
    return set(tuple(sorted((ak(a), ak(b)))) for a in conf.atoms for b in a.bonded_atoms)


def with_shared_proton(fed):
    """The fed-back file plus one user-supplied proton midway between the closest N/O pair of two residues (<= 3.0 A)."""
    atoms = [i for i in fed if not isinstance(i, str) and i.element in ('N', 'O')]
    best = None
    for i in range(len(atoms)):
        for j in range(i):
            a, b = atoms[i], atoms[j]
            if a.reskey == b.reskey or abs(a.resnum - b.resnum) == 1 and a.chain == b.chain:
                continue
            d2 = (a.x - b.x) ** 2 + (a.y - b.y) ** 2 + (a.z - b.z) ** 2
            if 2400 ** 2 <= d2 <= 3000 ** 2 and (best is None or d2 < best[0]):
                best = (d2, a, b)
    if best is None:
        return None
    _, a, b = best
    h = a.clone()
    h.name4 = ' HX '
    h.x, h.y, h.z = (a.x + b.x) // 2, (a.y + b.y) // 2, (a.z + b.z) // 2
    h.tail = '           H'
    out = list(fed)
    out.insert(next(k for k, it in enumerate(out) if it is a) + 1, h)
    return out


def heavy_view(mol):
    """Bonds between heavy atoms and protein/ion groups, keyed by atom identity (frame independent)."""
    conf = mol.conformations[mol.conformation_names[0]]

    def ak(a):
        return (a.chain_id, a.res_num, a.icode, a.res_name, a.name)
    bonds = set()
    for a in conf.atoms:
        if a.element == 'H':
            continue
        for b in a.bonded_atoms:
            if b.element != 'H':
                bonds.add(tuple(sorted((ak(a), ak(b)))))
    groups = sorted((pk.gkey_s(g), g.type) for g in conf.groups if g.atom.type == 'atom' or g.type == 'ION')
    desolv = sorted((pk.gkey_s(g), g.num_volume, round(g.buried, 12), g.energy_volume) for g in conf.groups)
    bridges = sorted(ak(a) for a in conf.atoms if a.cysteine_bridge)
    return bonds, groups, desolv, bridges


CFG_EDITS = {'coupled-centre': {'common_charge_centre': '1'}, 'coupled-shared': {'common_charge_centre': '1', 'shared_determinants': '1'},
             'short-desolv': {'desolv_cutoff': '10.0', 'buried_cutoff': '15.0'},
             'long-ranges': {'desolv_cutoff': '30.0', 'buried_cutoff': '25.0', 'coulomb_cutoff2': '14.0', 'Nmin': '150', 'Nmax': '400'}}


def cfg_opts(case):
    name = case.get('cfg')
    if not name:
        return ()
    import os
    from . import c02
    path = os.path.abspath('c04_%s.cfg' % name)
    if not os.path.exists(path):
        lines = []
        for ln in c02.cfg_variants()[(1, 0, 0)].splitlines(True):
            w = ln.split()
            if w and w[0] in CFG_EDITS[name]:
                ln = '%s %s\n' % (w[0], CFG_EDITS[name][w[0]])
            lines.append(ln)
        with open(path, 'w') as fh:
            fh.write(''.join(lines))
    return ('-p', path)


def ss_scan(case, ctx, acc):
    """A disulfide lying exactly along a coordinate axis, slid along that axis in 0.01 A steps over more than one cell."""
    s = gen.pair('CYS', 'CYS', case['d'])
    sg = [a for a in s.atoms if a.name == 'SG']
    v = [sg[1].xyz[i] - sg[0].xyz[i] for i in range(3)]
    R = gen.rotmat(v, [1.0, 0.0, 0.0])
    for a in s.atoms:
        q = [sum(R[i][j] * a.xyz[j] for j in range(3)) for i in range(3)]
        a.x, a.y, a.z = (int(round(c * 1000)) for c in q)
    sg[1].y, sg[1].z = sg[0].y, sg[0].z
    s.translate(gen.seed_offset(ctx.seed))
    ref = None
    for ri in (0, 9, 17):     # rotations that map the x axis onto x, y and z
        rot = gen.ROTATIONS[ri]
        base = s.copy().rotate(rot)
        axis = [abs(c) for c in (rot[1][i] * (1 if rot[0][i] == 0 else 0) for i in range(3))]
        k = rot[0].index(0) if 0 in rot[0] else 0
        for step in range(0, 262, 2 if ctx.tier == 'quick' else 1):
            t = [0, 0, 0]
            t[k] = step * 10
            moved = base.copy().translate(t)
            m = pk.run(gen.to_text(moved))
            h = heavy_view(m)
            view = (len(h[0]), [g for g in h[1]], [x[:2] for x in h[3]])
            acc.n += 1
            acc.nontrivial_n += 1
            acc.extra['ss_scan_runs'] += 1
            if ref is None:
                ref = view
            elif view != ref:
                acc.viols.append(Viol(dict(case, rot=ri, step=step), 'pose', 'disulfide-depends-on-pose/sub-cell-translation',
                                      'rotation %d, shift %.2f A along the bond axis: %d bonds, bridges %s (reference %d, %s)' % (
                                          ri, step / 100.0, view[0], view[2], ref[0], ref[2]), inputs=dict(moved=gen.to_text(moved))))
                return
    acc.outcomes['ss-scan'] += 1


EDGE_DIRS = None


def edge_dirs():
    global EDGE_DIRS
    if EDGE_DIRS is None:
        seen, out = set(), []
        for v in itertools.product(range(-3, 4), repeat=3):
            if not any(v):
                continue
            n = math.sqrt(sum(c * c for c in v))
            u = tuple(round(c / n, 6) for c in v)
            if u not in seen:
                seen.add(u)
                out.append(u)
        EDGE_DIRS = out
    return EDGE_DIRS


def edge_h(case, ctx, acc):
    base = case['base']
    s = flat_fragment(base['kind']) if base['src'] == 'flat' else corpus.build(base['d'], ctx.seed)
    if not c07.amino_only(s) or len(s.atoms) > 150:
        acc.skipped += 1
        return
    try:
        pk.seam_unrounded_hydrogens(True)
        m0 = pk.run(gen.to_text(s))
        conf = m0.conformations[m0.conformation_names[0]]
        heavy = [(a.x, a.y, a.z) for a in conf.atoms if a.element != 'H']
        hyd = [(a.x, a.y, a.z) for a in conf.atoms if a.element == 'H']
        dirs = {}
        for h in hyd:
            best = None
            for u in edge_dirs():
                margin = sum(h[i] * u[i] for i in range(3)) - max(sum(a[i] * u[i] for i in range(3)) for a in heavy)
                if margin > 0.15 and (best is None or margin > best[0]):
                    best = (margin, u)
            if best:
                dirs.setdefault(best[1], round(best[0], 3))
        acc.extra['edge_h_hydrogens'] += len(hyd)
        acc.extra['edge_h_outermost_directions'] += len(dirs)
        for u, margin in sorted(dirs.items()):
            for face in ('+x', '-x'):
                R = gen.rotmat(list(u), [1.0, 0.0, 0.0] if face == '+x' else [-1.0, 0.0, 0.0])
                rot = s.copy()
                for a in rot.atoms:
                    c = (a.x, a.y, a.z)
                    a.x, a.y, a.z = (int(round(sum(R[i][j] * c[j] for j in range(3)))) for i in range(3))
                ext = rot.extent()
                t = [9999999 - ext[0][1] if face == '+x' else -999999 - ext[0][0], 0, 0]
                ta, tb = gen.to_text(rot), gen.to_text(rot.copy().translate(t))
                ra, rb = pk.record(pk.run(ta)), pk.record(pk.run(tb))
                sub = dict(case, u=list(u), face=face, margin=margin)
                nt = any(any(g['dets'][x] for x in g['dets']) for g in ra['confs']['AVR']['groups'])
                acc.case(nontrivial_key=jhash(sub) if nt else None, outcome='edge-h')
                d = cmp.diff_records(ra, rb, tol=1e-9)
                if d:
                    acc.viols.append(Viol(sub, 'pose', 'pka-depends-on-pose/field-edge/%s' % d[0][0], str(d[0])[:300], inputs=dict(pdb=ta, moved=tb)))
    finally:
        pk.seam_unrounded_hydrogens(False)


def run_case(case, ctx, acc):
    if case['src'] == 'ss-scan':
        return ss_scan(case, ctx, acc)
    if case['src'] == 'edge-h':
        return edge_h(case, ctx, acc)
    base_opts = cfg_opts(case)
    if case['src'] == 'flat':
        s = flat_fragment(case['kind'], case.get('pucker', 0)).translate(gen.seed_offset(ctx.seed))
    elif case['src'] == 'dup-record':
        s = corpus.build(case['d'], ctx.seed)
        items = list(s.items)
        k = next(i for i, it in enumerate(items) if not isinstance(it, str) and it.name == 'CB')
        b = items[k].clone()
        b.x += 4
        items.insert(k + 1, b)
        s = gen.S(items)
    elif case['src'] == 'large':
        lib = gen.library()
        items, off = [], 0
        for n, key in enumerate(case['keys']):
            part = gen.parse_text(lib.text(key))
            part = gen.S([i for i in part.items if (isinstance(i, str) and i.startswith('TER')) or (not isinstance(i, str) and i.alt in (' ', 'A'))])
            for a in part.atoms:
                a.alt = ' '
                a.chain = 'ABCDEFGHIJ'[(ord(a.chain) + 3 * n) % 10] if a.chain.strip() else 'ABCDEFGHIJ'[3 * n % 10]
            ext = part.extent()
            part.translate((off - ext[0][0], 0, 0))
            off = part.extent()[0][1] + 30000
            items += part.items + ['TER\n']
        s = gen.S(items).renumber_serials()
    elif case['src'] == 'c08':
        from . import c08
        d = dict(case['d'], layout=[tuple(x) for x in case['d']['layout']])
        if d.get('lys'):
            d['lys'] = [tuple(x) for x in d['lys']]
        s = c08.build(d, ctx.seed)
    else:
        s = corpus.build(case['d'], ctx.seed)
    amino = c07.amino_only(s)
    text0 = gen.to_text(s)
    seam = OrthoSeam()
    try:
        pk.seam_unrounded_hydrogens(True)
        m0 = pk.run(text0, base_opts)
        rotamer = seam.calls > 0
        r0 = pk.record(m0)
        h0 = heavy_view(m0)
        prm = m0.version.parameters
        if ties(r0, s, (prm.desolv_cutoff, prm.buried_cutoff, prm.coulomb_cutoff2)):
            acc.skipped += 1
            acc.extra['skipped_cutoff_tie'] += 1
            return
        # production-mode run for the hydrogens to feed back
        pk.seam_unrounded_hydrogens(False)
        mp = pk.run(text0, base_opts)
        rp = pk.record(mp)
        fed = c07.hydrogens_fed_back(s, mp) if amino and case['src'] not in ('c08', 'large', 'dup-record') else None    # (feedback is written for one conformation)
        rk0 = None
        shared, rs0, bs0 = None, None, None
        if fed is not None:
            rk0 = pk.record(pk.run(gen.to_text(fed), ('--keep-protons',) + base_opts))
            shared = with_shared_proton(fed)
            if shared is not None:
                ms = pk.run(gen.to_text(shared), ('--keep-protons',) + base_opts)
                rs0, bs0 = pk.record(ms), all_bonds(ms)
        nt = any(any(g['dets'][t] for t in g['dets']) or g['energy_volume'] for g in r0['confs']['AVR']['groups'])
        # --protonate-all builds rotamer hydrogens (hydroxyl, thiol, amine) whose direction follows the frame, but it is promised not
        # to change any pKa (C07): for amino-acid inputs without rotamers in the default mode its results are pose independent too
        rpa0 = None
        if amino and not rotamer:
            pk.seam_unrounded_hydrogens(True)
            rpa0 = pk.record(pk.run(text0, ('--protonate-all',) + base_opts))
            seam.calls = 0
        trs = translations(s, ctx.tier, ctx.seed)
        maxdev = 0.0
        for ri, rot in enumerate(gen.ROTATIONS):
            for tname, t in trs.items():
                if ri == 0 and tname == 'none':
                    continue
                if case.get('motions') is not None and [ri, tname] not in case['motions']:
                    continue
                if ctx.tier == 'quick' and tname not in QUICK_FULL and ri not in (0, 5, 13, 22):
                    continue
                if ctx.tier == 'quick' and case.get('cfg') and (ri not in (0, 3, 5, 9, 13, 17, 22) or tname == 'far-positive'):
                    continue
                sub = dict(case, rot=ri, tr=tname)
                moved = s.copy().rotate(rot).translate(t)
                ext = moved.extent()
                if any(e[0] < -999999 or e[1] > 9999999 for e in ext):
                    acc.skipped += 1
                    continue
                text1 = gen.to_text(moved)
                inputs = dict(pdb=text0, moved=text1)
                pk.seam_unrounded_hydrogens(True)
                seam.calls = 0
                m1 = pk.run(text1, base_opts)
                r1 = pk.record(m1)
                h1 = heavy_view(m1)
                acc.case(nontrivial_key=jhash(sub) if nt else None, outcome='amino' if amino else 'hetero')
                v = []
                for nm, a, b in (('bonds', h0[0], h1[0]), ('groups', h0[1], h1[1]), ('bridges', h0[3], h1[3])):
                    if a != b:
                        v.append(('heavy-atom-%s-depend-on-pose' % nm, '%s differ: %s' % (nm, sorted(a ^ b if isinstance(a, set) else set(a) ^ set(b))[:3])))
                d1 = {x[0]: x for x in h1[2]}
                for (k0, n0, b0, e0) in h0[2]:
                    if k0 not in d1:
                        if k0.split(':')[-1] not in LIGAND_GROUP_TYPES:
                            v.append(('heavy-atom-groups-depend-on-pose', '%s missing in the moved pose' % k0))
                        else:
                            acc.extra['ligand_group_identity_differs_between_poses(not claimed)'] += 1
                        continue
                    _, n1, b1, e1 = d1[k0]
                    if n0 != n1 or not cmp.close(b0, b1) or not cmp.close(e0, e1):
                        v.append(('desolvation-depends-on-pose', '%s: (%s,%s,%r) vs (%s,%s,%r)' % (k0, n0, b0, e0, n1, b1, e1)))
                        break
                if amino and not rotamer and seam.calls == 0:
                    d = cmp.diff_records(r0, r1, tol=1e-9)
                    if d:
                        v.append(('pka-depends-on-pose/unrounded-hydrogens/%s' % d[0][0], str(d[0])[:300]))
                    if rpa0 is not None and (tname == 'generic' or ctx.tier == 'thorough'):
                        pk.seam_unrounded_hydrogens(True)
                        rpa1 = pk.record(pk.run(text1, ('--protonate-all',) + base_opts))
                        seam.calls = 0
                        acc.n += 1
                        d = cmp.diff_records(rpa0, rpa1, tol=1e-9)
                        if d:
                            v.append(('pka-depends-on-pose/protonate-all/%s' % d[0][0], str(d[0])[:300]))
                    infield = lambda st: all(-999999 <= e[0] and e[1] <= 9999999 for e in st.extent())   # noqa: E731
                    fm = None if fed is None else gen.S([i.clone() if not isinstance(i, str) else i for i in fed]).rotate(rot).translate(t)
                    if fm is not None and not infield(fm):
                        acc.extra['fed_back_hydrogens_outside_coordinate_field(not written)'] += 1
                        fm = None
                    if fm is not None:
                        rk1 = pk.record(pk.run(gen.to_text(fm), ('--keep-protons',) + base_opts))
                        d = cmp.diff_records(rk0, rk1, tol=1e-9)
                        acc.n += 1
                        if d:
                            v.append(('pka-depends-on-pose/keep-protons/%s' % d[0][0], str(d[0])[:300]))
                            inputs['moved_with_h'] = gen.to_text(fm)
                    sm = None if shared is None else gen.S([i.clone() if not isinstance(i, str) else i for i in shared]).rotate(rot).translate(t)
                    if sm is not None and not infield(sm):
                        sm = None
                    if sm is not None:
                        m2 = pk.run(gen.to_text(sm), ('--keep-protons',) + base_opts)
                        acc.n += 1
                        acc.extra['shared_proton_runs'] += 1
                        if all_bonds(m2) != bs0:
                            v.append(('bonds-of-supplied-hydrogens-depend-on-pose', 'bonds differ: %s' % sorted(all_bonds(m2) ^ bs0)[:3]))
                            inputs['moved_with_h'] = gen.to_text(sm)
                        d = cmp.diff_records(rs0, pk.record(m2), tol=1e-9)
                        if d:
                            v.append(('pka-depends-on-pose/keep-protons-shared-proton/%s' % d[0][0], str(d[0])[:300]))
                            inputs['moved_with_h'] = gen.to_text(sm)
                    # production mode: measured only
                    pk.seam_unrounded_hydrogens(False)
                    r1p = pk.record(pk.run(text1, base_opts))
                    for ga, gb in zip(rp['confs']['AVR']['groups'], r1p['confs']['AVR']['groups']):
                        maxdev = max(maxdev, abs(ga['pka'] - gb['pka']))
                elif amino:
                    acc.extra['excluded_rotamer'] += 1
                seen = set()
                for ck, what in v:
                    if ck not in seen:
                        seen.add(ck)
                        acc.viols.append(Viol(sub, 'pose', ck, what, inputs=inputs))
        acc.extra['max_production_mode_dpka_x1e6'] = max(acc.extra['max_production_mode_dpka_x1e6'], int(maxdev * 1e6))
    finally:
        seam.remove()
        pk.seam_unrounded_hydrogens(False)

"""Shared machinery for C09 / C10: containers with chosen titratable groups, reference titration model."""
import math

from . import pk, gen

KIND_OF = {'A': 'ASP', 'B': 'LYS', 'Y': 'TYR', 'H': 'HIS', 'R': 'ARG', 'E': 'GLU', 'C': 'CYS'}
PKA_LATTICE = (-3.0, 0.0, 3.8, 6.5, 7.0, 10.5, 14.0, 17.0)


def container(sig, seed=0):
    """A real MolecularContainer holding one isolated group per letter of `sig` (50 A apart)."""
    items = []
    off = gen.seed_offset(seed)
    chains = 'ABCDEFGH'
    for i, letter in enumerate(sig):
        s = gen.kind_struct(KIND_OF[letter], chains[i], 1 + 10 * i)
        s.translate((50000 * i + off[0], off[1], off[2]))
        items += s.items + ['TER\n']
    if not sig:   # no titratable group at all: an inert carbon
        items = gen.shell((0, 0, 0), [], 0.0, 0.1, spacing=3.0).items
    return gen.S(items).renumber_serials()


def titratable(mol, conf='AVR'):
    return [g for g in mol.conformations[conf].groups if g.titratable]


# ------------------------------------------------------------------ reference model (Henderson-Hasselbalch)
def frac_deprot(pk_, ph):
    """theta = 10^(pH-pK) / (1 + 10^(pH-pK)), evaluated stably."""
    x = ph - pk_
    if x > 0:
        return 1.0 / (1.0 + 10.0 ** (-x))
    t = 10.0 ** x
    return t / (1.0 + t)


def ref_charge(charge, pk_, ph):
    th = frac_deprot(pk_, ph)
    return -abs(charge) * th if charge < 0 else abs(charge) * (1.0 - th)


def ref_totals(groups, ph):
    """(unfolded, folded) total charge from plain (charge, model, pka) triples."""
    qu = sum(ref_charge(c, m, ph) for c, m, p in groups)
    qf = sum(ref_charge(c, p, ph) for c, m, p in groups)
    return qu, qf


def log1p10(x):
    """log10(1 + 10^x) stably."""
    if x > 0:
        return x + math.log10(1.0 + 10.0 ** (-x))
    return math.log10(1.0 + 10.0 ** x)


def ref_ddg_ph(groups, ph):
    """pH-dependent part of the folding free energy: -1.36 * sum(L(pH,pKa) - L(pH,pKmodel))."""
    return -1.36 * sum(log1p10(ph - p) - log1p10(ph - m) for c, m, p in groups)


def ref_grid(lo, hi, step):
    """The requested grid: lo + i*step for all i with lo + i*step <= hi (to 1e-9); both ends when integral."""
    n = int(math.floor((hi - lo) / step + 1e-9))
    return [lo + i * step for i in range(n + 1)]


def triples(mol, conf='AVR'):
    return [(g.charge, g.model_pka, g.pka_value) for g in titratable(mol, conf)]


def set_pkas(mol, values, conf='AVR'):
    gs = titratable(mol, conf)
    assert len(gs) == len(values), (len(gs), values)
    for g, v in zip(gs, values):
        g.pka_value = v

"""Explorer, evidence, known findings, replay.  See DESIGN.md section 3."""
import argparse
import collections
import contextlib
import fnmatch
import hashlib
import importlib
import json
import multiprocessing
import os
import shutil
import signal
import sys
import tempfile
import time
import traceback

from . import VERIF, REPO, bind_repo

CASE_HORIZON_S = 60.0
MAX_CONFIRM_PER_CLASS = 3
MAX_REPORTED_CLASSES = 25


class CaseTimeout(Exception):
    pass


def jhash(obj, n=16):
    return hashlib.sha1(json.dumps(obj, sort_keys=True, default=str).encode()).hexdigest()[:n]


class Ctx:
    """Per-process context handed to check modules."""

    def __init__(self, tier, seed, isolated=False):
        self.tier = tier
        self.seed = seed
        self.isolated = isolated
        self.scratch = None

    @contextlib.contextmanager
    def horizon(self, seconds=CASE_HORIZON_S):
        def onalarm(signum, frame):
            raise CaseTimeout('case exceeded %.0f s' % seconds)
        old = signal.signal(signal.SIGALRM, onalarm)
        signal.setitimer(signal.ITIMER_REAL, seconds)
        try:
            yield
        finally:
            signal.setitimer(signal.ITIMER_REAL, 0)
            signal.signal(signal.SIGALRM, old)


class Viol(dict):
    """A violation: case (JSON-able), sub-oracle, class_key, what, detail, inputs."""

    def __init__(self, case, sub, class_key, what, detail=None, inputs=None):
        super().__init__(case=case, sub=sub, class_key=class_key, what=what,
                         detail=detail, inputs=inputs or {})


class Acc:
    """Accumulator a shard fills and returns (plain data only)."""

    def __init__(self):
        self.n = 0
        self.nontrivial = set()
        self.nontrivial_n = 0
        self.outcomes = collections.Counter()
        self.viols = []
        self.samples = []
        self.skipped = 0
        self.extra = collections.Counter()
        self.notes = []

    def case(self, nontrivial_key=None, outcome=None, sample=None):
        self.n += 1
        if nontrivial_key is not None:
            self.nontrivial.add(nontrivial_key)
        if outcome is not None:
            self.outcomes[outcome] += 1
        if sample is not None and len(self.samples) < 2:
            self.samples.append(sample)

    def dump(self):
        oc = self.outcomes
        if len(oc) > 5000:   # keep the message small; count is what matters
            oc = collections.Counter({k: v for k, v in list(oc.items())[:5000]})
            self.extra['outcomes_truncated'] += 1
        return dict(n=self.n, nontrivial=sorted(self.nontrivial), nontrivial_n=self.nontrivial_n,
                    outcomes=dict(oc), viols=self.viols[:200], nviols=len(self.viols),
                    samples=self.samples, skipped=self.skipped, extra=dict(self.extra),
                    notes=self.notes[:20])


def exc_key(exc):
    """Class key for an exception escaping propka: type + innermost propka frame."""
    tb = traceback.extract_tb(exc.__traceback__)
    frame = None
    for fr in tb:
        if os.sep + 'propka' + os.sep in fr.filename and os.sep + 'pkmc' + os.sep not in fr.filename:
            frame = fr
    if frame is None:
        frame = tb[-1] if tb else None
    where = '%s:%s' % (os.path.basename(frame.filename), frame.name) if frame else '?'
    return 'exception/%s@%s' % (type(exc).__name__, where)


def gen_skip():
    from . import gen
    return gen.Skip


def run_cases(mod, cases, ctx):
    """Generic shard body: call mod.run_case(case, ctx, acc) for every case."""
    acc = Acc()
    for case in cases:
        try:
            with ctx.horizon(getattr(mod, 'HORIZON_S', CASE_HORIZON_S)):
                mod.run_case(case, ctx, acc)
        except gen_skip() as exc:
            acc.skipped += 1
            acc.extra['skipped_' + str(exc)] += 1
        except CaseTimeout as exc:
            acc.n += 1
            acc.viols.append(Viol(case, 'horizon', 'timeout', str(exc)))
        except (Exception, SystemExit) as exc:   # escaped the oracle: propka crashed (or called sys.exit), or the harness did
            acc.n += 1
            tb = traceback.extract_tb(exc.__traceback__)
            last = tb[-1].filename if tb else ''
            in_propka = (os.sep + 'propka' + os.sep in last) and (os.sep + 'pkmc' + os.sep not in last)
            if in_propka or any(os.sep + 'propka' + os.sep in fr.filename for fr in tb[-3:]):
                acc.viols.append(Viol(case, 'crash', exc_key(exc),
                                      '%s: %s' % (type(exc).__name__, str(exc)[:200]),
                                      detail=traceback.format_exc()[-1500:]))
            else:   # raised by the harness itself (e.g. an internal name it relies on is gone): never a verdict on the property
                acc.extra['harness_errors'] += 1
                acc.notes.append('HARNESS: ' + traceback.format_exc()[-1200:])
    return acc


# ---------------------------------------------------------------- worker side
def _worker(args):
    modname, shard, tier, seed, isolated = args
    mod = importlib.import_module(modname)
    ctx = Ctx(tier, seed, isolated)
    base = '/dev/shm' if os.path.isdir('/dev/shm') else tempfile.gettempdir()
    ctx.scratch = tempfile.mkdtemp(prefix='pkmc-', dir=os.environ.get('TMPDIR', base))
    old = os.getcwd()
    os.chdir(ctx.scratch)
    try:
        from . import pk
        pk.quiet()
        if hasattr(mod, 'run_shard') and not isolated:
            acc = mod.run_shard(shard, ctx)
        else:
            acc = run_cases(mod, shard, ctx)
        return acc.dump()
    except BaseException:   # noqa: BLE001
        return dict(died=traceback.format_exc()[-3000:])
    finally:
        os.chdir(old)
        shutil.rmtree(ctx.scratch, ignore_errors=True)


def _isolated_replay(args):
    """Re-run one case in a process that has executed nothing else."""
    modname, case, tier, seed = args
    return _worker((modname, [case], tier, seed, True))


def fresh(fn, args):
    """Run fn(args) in a fresh fork of the current process (plain os.fork, so it also works inside pool workers)."""
    import pickle
    r, w = os.pipe()
    pid = os.fork()
    if pid == 0:
        code = 0
        try:
            os.close(r)
            try:
                payload = pickle.dumps(('ok', fn(args)))
            except BaseException:   # noqa
                payload = pickle.dumps(('err', traceback.format_exc()[-3000:]))
            with os.fdopen(w, 'wb') as fh:
                fh.write(payload)
        except BaseException:   # noqa
            code = 1
        finally:
            os._exit(code)
    os.close(w)
    with os.fdopen(r, 'rb') as fh:
        data = fh.read()
    os.waitpid(pid, 0)
    if not data:
        return dict(died='child produced no result')
    kind, val = pickle.loads(data)
    if kind == 'err':
        return dict(died=val)
    return val


# ---------------------------------------------------------------- known findings
def load_known(prop):
    path = os.path.join(VERIF, 'known_findings.json')
    if not os.path.exists(path):
        return []
    with open(path) as fh:
        data = json.load(fh)
    return [e for e in data.get('findings', []) if e.get('property') == prop and e.get('status') == 'open']


def match_known(known, class_key):
    for ent in known:
        if fnmatch.fnmatchcase(class_key, ent['class_key']):
            return ent
    return None


# ---------------------------------------------------------------- driver
def pmap_unordered(fn, jobs, nproc, timeout=7200.0):
    """Run fn(job) for every job, each in a fresh fork of this process, at most nproc at a time; yields results as they finish.
    A child that exits without delivering a result (sys.exit inside the code under test, a crash of the interpreter, a kill) or
    that exceeds the timeout yields dict(died=...) instead of blocking the run for ever (multiprocessing.Pool would)."""
    import pickle
    import select
    import signal
    pending = list(jobs)
    pending.reverse()
    running = {}     # read fd -> [pid, chunks, start time]
    while pending or running:
        while pending and len(running) < max(1, nproc):
            job = pending.pop()
            r, w = os.pipe()
            pid = os.fork()
            if pid == 0:
                code = 0
                try:
                    os.close(r)
                    for fd in list(running):
                        try:
                            os.close(fd)
                        except OSError:
                            pass
                    try:
                        payload = pickle.dumps(('ok', fn(job)))
                    except BaseException:   # noqa: BLE001  (SystemExit raised by the code under test included)
                        payload = pickle.dumps(('err', traceback.format_exc()[-3000:]))
                    with os.fdopen(w, 'wb') as fh:
                        fh.write(payload)
                except BaseException:   # noqa: BLE001
                    code = 1
                finally:
                    os._exit(code)
            os.close(w)
            running[r] = [pid, [], time.time()]
        ready, _, _ = select.select(list(running), [], [], 1.0)
        now = time.time()
        for fd in list(running):
            pid, chunks, t0 = running[fd]
            if fd in ready:
                data = os.read(fd, 1 << 20)
                if data:
                    chunks.append(data)
                    continue
                os.close(fd)
                _, status = os.waitpid(pid, 0)
                del running[fd]
                blob = b''.join(chunks)
                if not blob:
                    yield dict(died='worker process ended without a result (wait status %d)' % status)
                    continue
                kind, val = pickle.loads(blob)
                yield val if kind == 'ok' else dict(died=val)
            elif now - t0 > timeout:
                try:
                    os.kill(pid, signal.SIGKILL)
                except OSError:
                    pass
                os.close(fd)
                os.waitpid(pid, 0)
                del running[fd]
                yield dict(died='worker process killed after %.0f s' % timeout)


def gather(modname, shards, tier, seed, nproc, agg=None, worker=None):
    """Run shards in forked workers (one process per shard) and merge their accumulators."""
    order = list(range(len(shards)))
    if seed:   # seed only permutes dispatch order (a don't-care dimension)
        import random
        random.Random(seed).shuffle(order)
    mp = multiprocessing.get_context('fork')
    agg = agg or Acc()
    died = []
    if not shards:
        return agg, died
    jobs = [(modname, shards[i], tier, seed, False) for i in order]
    for res in pmap_unordered(worker or _worker, jobs, min(nproc, max(1, len(shards)))):
        merge(agg, res, died)
    return agg, died


def merge(agg, res, died):
    if 'died' in res:
        died.append(res['died'])
        return
    agg.n += res['n']
    agg.nontrivial.update(res['nontrivial'])
    agg.nontrivial_n += res['nontrivial_n']
    agg.outcomes.update(res['outcomes'])
    agg.viols.extend(res['viols'])
    for s in res['samples']:
        if len(agg.samples) < 4:
            agg.samples.append(s)
    agg.skipped += res['skipped']
    for k_, v_ in res['extra'].items():
        if k_.startswith('max_'):
            agg.extra[k_] = max(agg.extra[k_], v_)
        else:
            agg.extra[k_] += v_
    agg.notes.extend(res['notes'])


def explore(mod, tier, seed, nproc):
    t0 = time.time()
    modname = mod.__name__
    if hasattr(mod, 'drive'):   # checks with their own search loop (explicit-state BFS) built on gather()/fresh()
        plan, agg, died = mod.drive(tier, seed, nproc)
        shards = plan['shards']
    else:
        plan = mod.plan(tier, seed)
        shards = plan['shards']
        agg, died = gather(modname, shards, tier, seed, nproc)
    # ---- confirm candidates in isolation, classify
    known = load_known(mod.ID)
    byclass = collections.OrderedDict()
    for v in agg.viols:
        byclass.setdefault(v['class_key'], []).append(v)
    confirmed, unconfirmed = [], []
    for ck, vs in byclass.items():
        ok = None
        tries = list(vs[:MAX_CONFIRM_PER_CLASS])
        if len(vs) > MAX_CONFIRM_PER_CLASS:     # a representative may depend on what its shard ran before it: try some more, evenly spread
            tries += vs[MAX_CONFIRM_PER_CLASS::max(1, (len(vs) - MAX_CONFIRM_PER_CLASS) // 9)][:9]
        for v in tries:
            keys = []
            for _ in range(2):
                r = fresh(_isolated_replay, (modname, v['case'], tier, seed))
                keys.append(sorted({x['class_key'] for x in r.get('viols', [])}) if 'died' not in r else ['died'])
            if keys[0] != keys[1]:
                raise SystemExit('HARNESS ERROR: replay of %s not deterministic: %s vs %s' % (ck, keys[0], keys[1]))
            if ck in keys[0]:
                ok = v
                break
        if ok is not None:
            confirmed.append((ck, ok, len(vs)))
        else:
            unconfirmed.append((ck, vs[0], len(vs)))
    lines, exit_code, known_hit, new = [], 0, [], []
    for ck, v, cnt in confirmed:
        ent = match_known(known, ck)
        if ent:
            known_hit.append((ent, ck, cnt))
        else:
            new.append((ck, v, cnt))
    seen_ent = set()
    for ent, ck, cnt in known_hit:
        if ent['id'] in seen_ent:
            continue
        seen_ent.add(ent['id'])
        lines.append('KNOWN-FINDING: property=%s %s [%s]' % (mod.ID, ent['what'], ent['id']))
    for ck, v, cnt in new[:MAX_REPORTED_CLASSES]:
        path = write_replay(mod, v, tier, seed)
        lines.append('VIOLATION property=%s replay=%s  # %s: %s (%d cases)' % (mod.ID, path, ck, v['what'], cnt))
        exit_code = 1
    for tbk in died:
        lines.append('HARNESS ERROR: shard died:\n' + tbk)
        exit_code = 2
    if agg.extra.get('harness_errors'):
        lines.append('HARNESS ERROR: %d case(s) raised inside the harness, e.g.\n%s' % (
            agg.extra['harness_errors'], next((n for n in agg.notes if n.startswith('HARNESS')), '')))
        exit_code = exit_code or 2
    for ck, v, cnt in unconfirmed:
        lines.append('NOTE: candidate %s (%d cases) did not reproduce in a fresh process; '
                     'treated as cross-run state leak (see C03), not reported here' % (ck, cnt))
    wall = time.time() - t0
    exhaustive = bool(plan.get('exhaustive', True)) and not died
    cov = dict(plan.get('coverage', {}))
    nt = len(agg.nontrivial) + agg.nontrivial_n
    cov.update(dict(
        evaluations=agg.n, distinct_nontrivial=nt, rule=plan.get('rule', ''),
        samples=(plan.get('samples', []) + agg.samples)[:6], exhaustive=exhaustive,
        bounds_completed=plan.get('bounds', {}), shards=len(shards),
        distinct_outcomes=len(agg.outcomes), skipped_ties=agg.skipped,
        counters=dict(agg.extra),
        known_findings_hit=sorted({e['id'] for e, _, _ in known_hit}),
        unconfirmed_candidates=[ck for ck, _, _ in unconfirmed],
        tree=REPO))
    if mod.LEVEL == 'model_checking':
        cov.setdefault('states', int(agg.extra.get('states', 0)) or 1)
        cov.setdefault('transitions', int(agg.extra.get('transitions', 0)) or 1)
        cov.setdefault('traces_validated_against_impl', int(agg.extra.get('traces', agg.n)))
    if hasattr(mod, 'finish'):
        mod.finish(cov, agg, plan)
    ev = dict(property_id=mod.ID, tier=tier, seed=seed, level=mod.LEVEL, coverage=cov,
              assumptions=list(getattr(mod, 'ASSUMPTIONS', [])), wall_s=round(wall, 2),
              violations=len(new))
    write_evidence(mod.ID, ev)
    print('%s tier=%s seed=%d: cases=%d shards=%d distinct_nontrivial=%d distinct_outcomes=%d '
          'skipped_ties=%d known=%d new_violations=%d wall=%.1fs exhaustive=%s' % (
              mod.ID, tier, seed, agg.n, len(shards), nt, len(agg.outcomes), agg.skipped,
              len(known_hit), len(new), wall, exhaustive))
    for k, v in sorted(agg.extra.items()):
        print('   %-40s %d' % (k, v))
    for ln in lines:
        print(ln)
    if nt < 2 or agg.n < 1:
        print('HARNESS ERROR: vacuous exploration (no non-trivial cases)')
        exit_code = exit_code or 2
    return exit_code


def write_replay(mod, v, tier, seed):
    d = dict(property=mod.ID, tier=tier, seed=seed, **v)
    name = jhash([v['case'], v['class_key']]) + '.json'
    rdir = os.path.join(os.environ.get('VERIF_EVIDENCE_DIR', '') and os.path.join(os.environ['VERIF_EVIDENCE_DIR'], '..', 'replays')
                        or os.path.join(VERIF, 'replays'), mod.ID)
    rdir = os.path.normpath(rdir)
    os.makedirs(rdir, exist_ok=True)
    path = os.path.join(rdir, name)
    with open(path, 'w') as fh:
        json.dump(d, fh, indent=1, default=str)
    test = os.path.join(rdir, 'test_' + name[:-5] + '.py')
    with open(test, 'w') as fh:
        fh.write(UNIT_TEST % dict(verif=VERIF, path=path))
    return path


UNIT_TEST = '''"""Replays one recorded violation without the explorer (pytest or python)."""
import subprocess, sys
def test_replay():
    r = subprocess.run([%(verif)r + "/check", "--replay", %(path)r], capture_output=True, text=True)
    assert "VIOLATION" not in r.stdout and r.returncode == 0, r.stdout[-2000:]
if __name__ == "__main__":
    test_replay()
'''


def write_evidence(pid, ev):
    edir = os.environ.get('VERIF_EVIDENCE_DIR') or os.path.join(VERIF, 'evidence')
    os.makedirs(edir, exist_ok=True)
    path = os.path.join(edir, pid + '.json')
    tmp = path + '.tmp'
    with open(tmp, 'w') as fh:
        json.dump(ev, fh, indent=1, default=str)
    os.replace(tmp, path)


def replay(path, nproc):
    with open(path) as fh:
        d = json.load(fh)
    mod = importlib.import_module('pkmc.checks.' + d['property'].lower())
    known = load_known(mod.ID)
    res = []
    for _ in range(2):
        r = fresh(_isolated_replay, (mod.__name__, d['case'], d.get('tier', 'quick'), d.get('seed', 0)))
        if 'died' in r:
            print('HARNESS ERROR: replay died\n' + r['died'])
            return 2
        res.append(r)
    k0 = sorted({v['class_key'] for v in res[0]['viols']})
    k1 = sorted({v['class_key'] for v in res[1]['viols']})
    if k0 != k1:
        print('HARNESS ERROR: replay not deterministic: %s vs %s' % (k0, k1))
        return 2
    code = 0
    for v in res[0]['viols']:
        ent = match_known(known, v['class_key'])
        if ent:
            print('KNOWN-FINDING: property=%s %s [%s]' % (mod.ID, ent['what'], ent['id']))
        else:
            print('VIOLATION property=%s replay=%s  # %s: %s' % (mod.ID, path, v['class_key'], v['what']))
            if v.get('detail'):
                print('   detail: %s' % (json.dumps(v['detail'], default=str)[:1500]))
            code = 1
    if not res[0]['viols']:
        print('replay %s: property holds on this case' % path)
    return code


def main(argv=None):
    ap = argparse.ArgumentParser(prog='check')
    ap.add_argument('id', nargs='?')
    ap.add_argument('--tier', default=os.environ.get('VERIF_TIER', 'quick'), choices=['quick', 'thorough'])
    ap.add_argument('--replay')
    ap.add_argument('--jobs', type=int, default=int(os.environ.get('VERIF_JOBS', '0')) or os.cpu_count() or 4)
    args = ap.parse_args(argv)
    os.chdir(VERIF)
    bind_repo()
    try:
        seed = int(os.environ.get('VERIF_SEED', '0') or 0)
    except ValueError:
        seed = 0
    if args.replay:
        return replay(args.replay, args.jobs)
    if not args.id:
        ap.error('property id required')
    mod = importlib.import_module('pkmc.checks.' + args.id.lower())
    return explore(mod, args.tier, seed, args.jobs)

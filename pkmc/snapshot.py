"""Generic, value-based snapshot of all cross-run state of the propka package (DESIGN C03)."""
import hashlib
import json
import logging
import os
import sys
import types

SKIP_GLOBALS = {'__builtins__', '__cached__', '__spec__', '__loader__', '__file__', '__path__', '__doc__', '__package__', '__name__',
                '__annotations__', '__all__'}


def canon(obj, memo, depth=0):
    """Canonical JSON-able form by value; object identity only through first-visit numbering."""
    if obj is None or isinstance(obj, (bool, int, str)):
        return obj
    if isinstance(obj, float):
        return repr(obj)
    if isinstance(obj, (bytes, bytearray)):
        return 'bytes:%d' % len(obj)
    oid = id(obj)
    if callable(obj) and hasattr(obj, 'cache_info') and hasattr(obj, '__wrapped__'):
        # functools.lru_cache / cache wrappers: their content is state that survives a run (size only: keys are not exposed)
        try:
            return 'cached-fn:%s.%s:size=%d' % (getattr(obj, '__module__', '?'), getattr(obj, '__qualname__', '?'), obj.cache_info().currsize)
        except Exception:   # noqa: BLE001
            return 'cached-fn:%s' % getattr(obj, '__qualname__', '?')
    if isinstance(obj, (types.FunctionType, types.BuiltinFunctionType)):
        return 'fn:%s.%s' % (getattr(obj, '__module__', '?'), getattr(obj, '__qualname__', '?'))
    if isinstance(obj, types.MethodType):
        return 'method:%s' % getattr(obj.__func__, '__qualname__', '?')
    if isinstance(obj, types.ModuleType):
        return 'module:%s' % obj.__name__
    if isinstance(obj, logging.Logger):
        return 'logger:%s' % obj.name
    if oid in memo:
        return 'ref:%d' % memo[oid]
    if depth > 12:
        return 'deep:%s' % type(obj).__name__
    memo[oid] = len(memo)
    if isinstance(obj, (list, tuple)):
        return [type(obj).__name__] + [canon(x, memo, depth + 1) for x in obj]
    if isinstance(obj, dict):
        items = [(canon(k, memo, depth + 1), canon(v, memo, depth + 1)) for k, v in obj.items()]
        return {'dict': sorted(items, key=lambda kv: json.dumps(kv[0], sort_keys=True, default=str))}
    if isinstance(obj, (set, frozenset)):
        return {'set': sorted((canon(x, memo, depth + 1) for x in obj), key=lambda x: json.dumps(x, sort_keys=True, default=str))}
    if isinstance(obj, type):
        mod = getattr(obj, '__module__', '')
        if not mod.startswith('propka'):
            return 'class:%s.%s' % (mod, obj.__qualname__)
        attrs = {}
        for k, v in vars(obj).items():
            if k.startswith('__') and k.endswith('__') and k not in ('__hash__', '__eq__'):
                continue
            if isinstance(v, (staticmethod, classmethod)):
                v = v.__func__
            attrs[k] = canon(v, memo, depth + 1)
        return {'class': '%s.%s' % (mod, obj.__qualname__), 'attrs': attrs}
    if isinstance(obj, property):
        return 'property'
    d = getattr(obj, '__dict__', None)
    if d is not None and getattr(type(obj), '__module__', '').startswith(('propka', 'argparse', 'pathlib')) or isinstance(d, dict) and \
            getattr(type(obj), '__module__', '').startswith('propka'):
        return {'obj': '%s.%s' % (type(obj).__module__, type(obj).__qualname__),
                'state': {k: canon(v, memo, depth + 1) for k, v in sorted(d.items())}}
    if hasattr(obj, '__fspath__'):
        return 'path:%s' % os.fspath(obj)
    return 'other:%s.%s' % (type(obj).__module__, type(obj).__qualname__)


def snapshot():
    """Dict of canonical state: every global of every propka.* module, logger configuration, cwd."""
    memo = {}
    mods = {}
    for name in sorted(sys.modules):
        if name == 'propka' or name.startswith('propka.'):
            mod = sys.modules[name]
            if mod is None:
                continue
            g = {}
            for k, v in sorted(vars(mod).items()):
                if k in SKIP_GLOBALS:
                    continue
                g[k] = canon(v, memo, 1)
            mods[name] = g
    loggers = {}
    for name, lg in sorted(logging.root.manager.loggerDict.items()):
        if (name == 'propka' or name.startswith('propka.')) and isinstance(lg, logging.Logger):
            loggers[name] = [lg.level, lg.propagate, lg.disabled, len(lg.handlers)]
    root = logging.getLogger('')
    # main() adds one more stdout handler per invocation: console multiplicity only, no observable in the record;
    # abstracted to "none / some" so that the state space closes (DESIGN C03)
    loggers['<root>'] = [root.level, min(1, len([h for h in root.handlers if type(h).__name__ == 'StreamHandler']))]
    return dict(modules=mods, loggers=loggers, cwd_is_scratch=True, argv0=None)


def digest(snap):
    return hashlib.sha1(json.dumps(snap, sort_keys=True, default=str).encode()).hexdigest()[:16]


def diff(a, b, path=''):
    """First few paths at which two snapshots differ."""
    out = []
    if type(a) is not type(b):
        return [path]
    if isinstance(a, dict):
        for k in sorted(set(a) | set(b), key=str):
            if k not in a or k not in b:
                out.append('%s/%s' % (path, k))
            else:
                out += diff(a[k], b[k], '%s/%s' % (path, k))
            if len(out) > 6:
                break
    elif isinstance(a, list):
        if len(a) != len(b):
            return [path + '[len]']
        for i, (x, y) in enumerate(zip(a, b)):
            out += diff(x, y, '%s[%d]' % (path, i))
            if len(out) > 6:
                break
    elif a != b:
        out.append(path)
    return out

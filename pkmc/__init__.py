"""pkmc - bounded exhaustive exploration (model checking) of the real propka code.

See /verif/DESIGN.md.  The tree under test is $PROPKA_REPO (default /repo).
"""
import os
import sys

REPO = os.environ.get('PROPKA_REPO', '/repo')
VERIF = os.path.dirname(os.path.dirname(os.path.abspath(__file__)))
GUARD = 'PROPKA_VERIF'


def bind_repo():
    """Put the tree under test first on sys.path and import propka from it."""
    sys.dont_write_bytecode = True
    if sys.path[0] != REPO:
        sys.path.insert(0, REPO)
    os.environ.setdefault(GUARD, '1')
    import propka  # noqa
    here = os.path.realpath(os.path.dirname(propka.__file__))
    want = os.path.realpath(os.path.join(REPO, 'propka'))
    if here != want:
        raise RuntimeError('propka imported from %s, expected %s' % (here, want))
    return propka

"""Driver for the real propka: run, observe, seams.  Import only after bind_repo()."""
import io
import logging
import os
import re

from . import bind_repo

bind_repo()
import propka.run  # noqa: E402
import propka.group  # noqa: E402
import propka.coupled_groups  # noqa: E402
import propka.protonate  # noqa: E402
import propka.output  # noqa: E402
import propka.parameters  # noqa: E402
import propka.input  # noqa: E402

DET_TYPES = ('sidechain', 'backbone', 'coulomb')


class Capture(logging.Handler):
    def __init__(self):
        super().__init__(level=logging.WARNING)
        self.records = []

    def emit(self, record):
        try:
            msg = record.getMessage()
        except Exception:
            msg = str(record.msg)
        self.records.append((record.name, record.levelname, msg))


_CAP = None


def quiet():
    """Capture propka warnings instead of printing them."""
    global _CAP
    lg = logging.getLogger('propka')
    if _CAP is None:
        _CAP = Capture()
        lg.addHandler(_CAP)
        lg.propagate = False
    return _CAP


def warnings_since(mark=0):
    return list(_CAP.records[mark:]) if _CAP else []


def warn_mark():
    return len(_CAP.records) if _CAP else 0


def run(pdb_text, opts=(), name='x.pdb', write=False):
    """One real propka.run.single on literal text.  Returns the MolecularContainer."""
    mol = propka.run.single(name, optargs=tuple(opts), stream=io.StringIO(pdb_text), write_pka=False)
    if write:
        mol._pka_text = pka_text(mol)
    return mol


def pka_text(mol):
    """Let the program write its .pka file into the scratch cwd and read it back."""
    before = set(os.listdir('.'))
    mol.write_pka()
    new = [f for f in os.listdir('.') if f not in before and f.endswith('.pka')]
    if not new:   # overwritten an existing one
        new = [f for f in os.listdir('.') if f.endswith('.pka')]
        new.sort(key=os.path.getmtime)
        new = new[-1:]
    with open(new[0]) as fh:
        text = fh.read()
    os.unlink(new[0])
    return text


def gkey(group):
    if not hasattr(group, 'type') and hasattr(group, 'group'):
        group = group.group   # determinants of the iterative solver point to Iterative wrappers
    a = group.atom
    return (a.chain_id, a.res_num, a.icode, a.res_name.strip(), a.name, group.type)


def gkey_s(group):
    k = gkey(group)
    return '%s:%d%s:%s:%s:%s' % (k[0], k[1], k[2].strip(), k[3], k[4], k[5])


def group_record(g, pos=None):
    dets = {}
    for t in DET_TYPES:
        dets[t] = sorted(((gkey_s(d.group), d.label, d.value) for d in g.determinants[t]),
                         key=lambda r: (r[0], r[2]))
    rec = dict(
        key=gkey_s(g), label=g.label, type=g.type, residue_type=g.residue_type,
        titratable=bool(g.titratable), charge=g.charge, model_pka=g.model_pka, pka=g.pka_value,
        energy_volume=g.energy_volume, num_volume=g.num_volume, energy_local=g.energy_local,
        num_local=g.num_local, buried=g.buried, dets=dets,
        coupled=sorted(gkey_s(x) for x in g.non_covalently_coupled_groups),
        cov_coupled=sorted(gkey_s(x) for x in g.covalently_coupled_groups),
        penalised_by=gkey_s(g.coupled_titrating_group) if g.coupled_titrating_group else None,
        use=bool(g.use_in_calculations()), bridge=bool(g.atom.cysteine_bridge),
        xyz=(g.x, g.y, g.z), serial_key=(g.atom.x, g.atom.y, g.atom.z))
    return rec


def record(mol, atoms=False, text=None):
    """Canonical, plain-data observation record of a finished run."""
    rec = dict(conformations=list(mol.conformation_names), confs={})
    for name in list(mol.conformation_names) + (['AVR'] if 'AVR' in mol.conformations else []):
        conf = mol.conformations[name]
        c = dict(groups=[group_record(g) for g in conf.groups], chains=list(conf.chains),
                 nc_flag=bool(conf.non_covalently_coupled_groups))
        if atoms and name != 'AVR':
            c['atoms'] = atom_records(conf)
        rec['confs'][name] = c
    if text is not None:
        rec['text'] = strip_date(text)
    return rec


def atom_records(conf):
    idx = {id(a): i for i, a in enumerate(conf.atoms)}
    out = []
    for a in conf.atoms:
        out.append(dict(name=a.name, el=a.element, res=(a.chain_id, a.res_num, a.icode, a.res_name),
                        xyz=(a.x, a.y, a.z), type=a.type, term=a.terminal, sybyl=a.sybyl_type,
                        bonds=sorted(idx[id(b)] for b in a.bonded_atoms if id(b) in idx),
                        bridge=bool(a.cysteine_bridge)))
    return out


_DATE = re.compile(r'^propka\S*\s+\d{4}-\d{2}-\d{2}\s*$', re.M)


def strip_date(text):
    return _DATE.sub('propka<version> <date>', text, count=1)


# ------------------------------------------------------------------ .pka parser
def parse_pka(text):
    """Parse the written .pka file by its fixed layout.

    Returns dict(det_rows=[...], summary=[...], folding=[(ph,dg)], charge=[(ph,qu,qf)],
    pi=(folded, unfolded), opt=(ph,dg)|None, r80=..., stab=..., coupled_note=bool)
    """
    lines = text.split('\n')
    out = dict(det=[], summary=[], folding=[], charge=[], pi=None, opt=None, r80=None, stab=None,
               coupled_note=False, ref=None)
    i = 0
    n = len(lines)
    # determinant section starts after the header line beginning with ' RESIDUE'
    while i < n and not lines[i].startswith(' RESIDUE    pKa'):
        i += 1
    i += 2
    cur = None
    while i < n and not lines[i].startswith('-' * 50):
        ln = lines[i]
        i += 1
        if ln.startswith('Coupled residues (marked *)'):
            out['coupled_note'] = True
            continue
        if not ln.strip() or ln.startswith('or -d option'):
            continue
        label = ln[:9]
        rest = ln[9:]
        if rest[:40].strip():
            # first line of a group: " %6.2f" + star + " %4d%2s " + " %6.2f %4d" *2
            cur = dict(label=label, pka=float(rest[1:7]), star=rest[7] == '*',
                       buried=int(rest[9:13]), evol=float(rest[17:23]), nvol=int(rest[24:28]),
                       eloc=float(rest[29:35]), nloc=int(rest[36:40]),
                       sidechain=[], backbone=[], coulomb=[], nlines=0)
            out['det'].append(cur)
        cols = rest[40:]
        cur['nlines'] += 1
        for k, t in enumerate(('sidechain', 'backbone', 'coulomb')):
            cell = cols[k * 18:(k + 1) * 18]
            val = float(cell[:8])
            lab = cell[9:18]
            if lab != 'XXX   0 X':
                cur[t].append((val, lab))
    # summary
    while i < n and not lines[i].startswith('       Group      pKa'):
        i += 1
    i += 1
    while i < n and not lines[i].startswith('-' * 50):
        ln = lines[i]
        i += 1
        if not ln.strip():
            continue
        out['summary'].append(dict(label=ln[3:12], pka=float(ln[12:21]), model=float(ln[21:32]),
                                   ltype=ln[33:51].strip(), note=ln[54:].strip()))
    # folding profile
    while i < n and not lines[i].startswith('Free energy of'):
        i += 1
    if i < n:
        m = re.search(r'using (\S+) reference', lines[i])
        out['ref'] = m.group(1) if m else None
    i += 1
    while i < n and lines[i].strip():
        ln = lines[i]
        i += 1
        out['folding'].append((float(ln[:6]), float(ln[6:16])))
    while i < n and not lines[i].startswith('Protein charge of folded'):
        ln = lines[i]
        i += 1
        m = re.match(r'The pH of optimum stability is\s*(-?[\d.]+) for which the free energy is\s*(-?[\d.]+)', ln)
        if m:
            out['opt'] = (float(m.group(1)), float(m.group(2)))
        m = re.match(r'The free energy is within 80 % of maximum at pH\s*(-?[\d.]+) to\s*(-?[\d.]+)', ln)
        if m:
            out['r80'] = (float(m.group(1)), float(m.group(2)))
        m = re.match(r'The free energy is negative in the range\s*(-?[\d.]+) -\s*(-?[\d.]+)', ln)
        if m:
            out['stab'] = (float(m.group(1)), float(m.group(2)))
    i += 2
    while i < n and lines[i].strip() and not lines[i].startswith(('The pI', 'Could not')):
        ln = lines[i]
        i += 1
        out['charge'].append((float(ln[:6]), float(ln[6:16]), float(ln[16:24])))
    while i < n:
        m = re.match(r'The pI is\s*(-?[\d.]+) \(folded\) and\s*(-?[\d.]+) \(unfolded\)', lines[i])
        if m:
            out['pi'] = (float(m.group(1)), float(m.group(2)))
        i += 1
    return out


# ------------------------------------------------------------------ seams
def seam_unrounded_hydrogens(on=True):
    """Shadow the builtin round for propka.protonate only (DESIGN 1.3)."""
    if on:
        propka.protonate.round = lambda x, n=None: x
    elif hasattr(propka.protonate, 'round'):
        del propka.protonate.round


def seam_coupling_analysis(on=True):
    propka.coupled_groups.NCCG.do_prot_stat = bool(on)


class HashOrder:
    """Controls the iteration order of sets of Group objects through __hash__.

    CPython iterates a small set in slot order; for ints that are small and distinct the slot
    is the hash value modulo the table size, so giving group k the hash rank[k] makes every set
    of groups iterate in rank order (tables here have >= 8 slots and systems have <= 7 groups).
    """

    def __init__(self):
        self.rank = {}
        self.orig = propka.group.Group.__hash__

    def install(self, key_to_rank):
        self.rank = dict(key_to_rank)
        seam = self

        def h(g):
            r = seam.rank.get(gkey_s(g))
            return seam.orig(g) if r is None else r
        propka.group.Group.__hash__ = h

    def remove(self):
        propka.group.Group.__hash__ = self.orig
